package c08

import (
	"bytes"
	"encoding/binary"
	"encoding/hex"
	"encoding/json"
	"fmt"
	"math"
	"os"
	"os/exec"
	"path/filepath"
	"strconv"
	"strings"
	"sync"
	"testing"
	"time"

	"seehuhn.de/go/pdf"
	"seehuhn.de/go/pdf/verif/internal/gen"
	"seehuhn.de/go/pdf/verif/internal/vt"
)

// The native coverage-guided target.  The engine mutates a flat byte string;
// a small data-provider layer turns it into (chain, parameters, body, mode):
//
//	byte 0   flags: bits 0-1 mode, bit 2 single name instead of array,
//	         bit 3 /DecodeParms of the wrong shape, bits 4-5 read buffer,
//	         bit 6 direct path on element 0, bit 7 PDF 1.1 instead of 1.7
//	byte 1   number of filters (mod 11)
//	filter:  name index, then a parameter byte p: p >= 0xF0 -> the element is
//	         the non-dictionary value fuzzVals[p&15]; else p%8 entries follow,
//	         each a key index and a value index
//	byte     g: the first 2*g bytes of the rest are the body of object 5
//	         (reachable as "5 0 R", e.g. from /JBIG2Globals)
//	byte     partial read size selector
//	rest     stream body (cut to 8 KiB)

const (
	fuzzMaxBody  = 8 << 10
	fuzzDrainCap = 8 << 20
)

var fuzzVals = buildFuzzVals()

func buildFuzzVals() []gen.O {
	// the first 16 are also used as non-dictionary parameter elements
	vals := []gen.O{
		oInt(3), oName("Foo"), oArr(oInt(1)), oBool(true), oNull(), oRef(5), oRef(6),
		{T: "str", S: gen.Hex("x")}, {T: "real", F: math.Float64bits(1.5)}, oArr(), oArr(oNull(), oInt(-1)),
		oDict(map[string]gen.O{"Predictor": oInt(12)}), oBool(false), oName("Identity"), oName("StdCF"), oInt(-1),
	}
	seen := map[int64]bool{3: true, -1: true}
	var ints []int64
	ints = append(ints, hostileInts...)
	for _, k := range paramKeys {
		ints = append(ints, plausible[k]...)
	}
	for _, i := range ints {
		if !seen[i] {
			seen[i] = true
			vals = append(vals, oInt(i))
		}
	}
	vals = append(vals, oName("CryptFilterDecodeParms"), oName(""), gen.O{T: "real", F: math.Float64bits(1e300)},
		oDict(map[string]gen.O{}), gen.O{T: "nildict"})
	return vals
}

func valIndex(o gen.O) (byte, bool) {
	want := vt.Hash(o)
	for i, v := range fuzzVals {
		if vt.Hash(v) == want {
			return byte(i), true
		}
	}
	return 0, false
}

type fuzzFilter struct {
	name    byte
	nondict int // >= 0: the parameter element is fuzzVals[nondict]
	kv      [][2]byte
}

type fuzzSpec struct {
	flags   byte
	filters []fuzzFilter
	globals []byte
	partial byte
	body    []byte
}

func (s *fuzzSpec) bytes() []byte {
	out := []byte{s.flags, byte(len(s.filters))}
	for _, f := range s.filters {
		out = append(out, f.name)
		if f.nondict >= 0 {
			out = append(out, 0xF0|byte(f.nondict&15))
			continue
		}
		out = append(out, byte(len(f.kv)))
		for _, e := range f.kv {
			out = append(out, e[0], e[1])
		}
	}
	g := (len(s.globals) + 1) / 2
	if g > 255 {
		g = 255
	}
	out = append(out, byte(g))
	out = append(out, s.partial)
	gl := append([]byte{}, s.globals...)
	for len(gl) < 2*g {
		gl = append(gl, 0)
	}
	out = append(out, gl[:2*g]...)
	return append(out, s.body...)
}

func parseFuzzSpec(data []byte) fuzzSpec {
	var s fuzzSpec
	next := func() byte {
		if len(data) == 0 {
			return 0
		}
		b := data[0]
		data = data[1:]
		return b
	}
	s.flags = next()
	n := int(next()) % 11
	for i := 0; i < n; i++ {
		f := fuzzFilter{name: next(), nondict: -1}
		p := next()
		if p >= 0xF0 {
			f.nondict = int(p & 15)
		} else {
			for j := 0; j < int(p%8); j++ {
				f.kv = append(f.kv, [2]byte{next(), next()})
			}
		}
		s.filters = append(s.filters, f)
	}
	g := 2 * int(next())
	s.partial = next()
	if g > len(data) {
		g = len(data)
	}
	s.globals, data = data[:g], data[g:]
	if len(data) > fuzzMaxBody {
		data = data[:fuzzMaxBody]
	}
	s.body = data
	return s
}

func (s *fuzzSpec) toCase() Case {
	c := Case{Origin: "fuzz", Ver: 8, Direct: -1}
	if s.flags&0x80 != 0 {
		c.Ver = 2
	}
	c.Mode = int(s.flags & 3)
	if c.Mode == 3 {
		c.Mode = 0
	}
	c.Buf = []int{1 << 16, 4096, 512, 7}[s.flags>>4&3]
	c.Partial = []int{1, 2, 100, 4096, 70000, 1 << 20, 3, 65536}[s.partial%8]
	var names, parms []gen.O
	for _, f := range s.filters {
		names = append(names, oName(allNames[int(f.name)%len(allNames)]))
		if f.nondict >= 0 {
			parms = append(parms, fuzzVals[f.nondict])
			continue
		}
		if len(f.kv) == 0 {
			parms = append(parms, oNull())
			continue
		}
		kv := map[string]gen.O{}
		for _, e := range f.kv {
			kv[paramKeys[int(e[0])%len(paramKeys)]] = fuzzVals[int(e[1])%len(fuzzVals)]
		}
		parms = append(parms, oDict(kv))
	}
	c.Filter, c.Parms = assemble(names, parms, s.flags&4 != 0)
	if s.flags&8 != 0 {
		if c.Filter.T == "arr" {
			c.Parms = parms0(parms, 0)
		} else {
			c.Parms = oArr(parms...)
		}
	}
	if s.flags&0x40 != 0 && len(names) > 0 {
		c.Direct = 0
	}
	if len(s.globals) > 0 {
		c.Objs = append(c.Objs, Ind{N: 5, O: gen.O{T: "dict"}, Stream: true, Body: s.globals})
	}
	c.Objs = append(c.Objs, Ind{N: 6, O: oRef(6)})
	c.Body = s.body
	return c
}

// specOf builds a seed from a chain given by names and parameter trees; keys
// or values which the data provider cannot express are dropped.
func specOf(ns []string, ps []gen.O, body, globals []byte, flags byte) fuzzSpec {
	s := fuzzSpec{flags: flags, body: body, globals: globals}
	for i, n := range ns {
		f := fuzzFilter{nondict: -1}
		for j, a := range allNames {
			if a == n {
				f.name = byte(j)
			}
		}
		if i < len(ps) && ps[i].T == "dict" {
			for _, kv := range ps[i].D {
				for k, key := range paramKeys {
					if key == string(kv.K) {
						if v, ok := valIndex(kv.V); ok && len(f.kv) < 7 {
							f.kv = append(f.kv, [2]byte{byte(k), v})
						}
					}
				}
			}
		}
		s.filters = append(s.filters, f)
	}
	return s
}

func fuzzSeeds() [][]byte {
	loadSeeds()
	var seeds [][]byte
	add := func(s fuzzSpec) {
		if len(s.body) > fuzzMaxBody {
			s.body = s.body[:fuzzMaxBody]
		}
		seeds = append(seeds, s.bytes())
	}
	text := payload(3, 600, 1)
	runs := payload(2, 3000, 2)
	for _, f := range []pdf.Filter{
		pdf.FilterASCII85{}, pdf.FilterASCIIHex{}, pdf.FilterRunLength{}, pdf.FilterFlate{},
		pdf.FilterFlate{Predictor: 12, Columns: 8}, pdf.FilterFlate{Predictor: 2, Colors: 3, BitsPerComponent: 4, Columns: 7},
		pdf.FilterFlate{Predictor: 15, Colors: 4, BitsPerComponent: 16, Columns: 3},
		pdf.FilterLZW{OffByOne: true}, pdf.FilterLZW{}, pdf.FilterLZW{Predictor: 14, Columns: 16, OffByOne: true},
		pdf.FilterCCITTFax{K: -1, Columns: 64}, pdf.FilterCCITTFax{K: 0, Columns: 64, EndOfLine: true},
		pdf.FilterCCITTFax{K: 4, Columns: 200, EncodedByteAlign: true, BlackIs1: true},
	} {
		n, p := infoOf(f)
		for _, data := range [][]byte{text, runs} {
			add(specOf([]string{n}, []gen.O{p}, encodeWith(f, data), nil, 0x40))
		}
	}
	// LZW streams which fill the 12-bit table and keep using it
	for _, early := range []bool{true, false} {
		lz := pdf.FilterLZW{OffByOne: early}
		n, p := infoOf(lz)
		for size := 16000; size >= 6000; size -= 1000 {
			if b := lzwFullTable(payload(3, size, 5), early, 0, true); len(b) <= fuzzMaxBody {
				add(specOf([]string{n}, []gen.O{p}, b, nil, 0x40))
				break
			}
		}
	}
	// chains
	fl := pdf.FilterFlate{}
	add(specOf([]string{"ASCII85Decode", "FlateDecode"}, nil, encodeWith(pdf.FilterASCII85{}, encodeWith(fl, text)), nil, 0))
	add(specOf([]string{"FlateDecode", "RunLengthDecode", "ASCIIHexDecode"}, nil,
		encodeWith(fl, encodeWith(pdf.FilterRunLength{}, encodeWith(pdf.FilterASCIIHex{}, runs))), nil, 0))
	add(specOf([]string{"FlateDecode", "FlateDecode", "FlateDecode", "FlateDecode", "FlateDecode", "FlateDecode", "FlateDecode", "FlateDecode", "FlateDecode"}, nil, encodeWith(fl, text), nil, 0))
	// images
	for _, j := range jpegSeeds {
		add(specOf([]string{"DCTDecode"}, nil, j, nil, 0x40))
		if p, ok := patchJPEGDims(j, 65535, 65535); ok {
			add(specOf([]string{"DCTDecode"}, nil, p, nil, 0))
		}
		if p, ok := patchJPEGDims(j, 4096, 4096); ok {
			add(specOf([]string{"DCTDecode"}, []gen.O{oDict(map[string]gen.O{"ColorTransform": oInt(0)})}, p, nil, 1))
		}
	}
	add(specOf([]string{"FlateDecode", "DCTDecode"}, nil, encodeWith(fl, jpegSeeds[0]), nil, 2))
	// frame headers with unusual component layouts, followed by a scan which
	// decodes under any layout (see tinyJPEG)
	y22 := func(cb, cr byte) []jpegComp {
		return []jpegComp{{1, 0x22, 0, 0}, {2, cb, 1, 0x11}, {3, cr, 1, 0x11}}
	}
	for _, sofType := range []byte{0xc0, 0xc2} {
		for _, hv := range [][2]byte{{0x11, 0x11}, {0x11, 0x12}, {0x11, 0x21}, {0x11, 0x22}, {0x22, 0x11}, {0x12, 0x21}} {
			add(specOf([]string{"DCTDecode"}, nil, tinyJPEG(sofType, 8, 16, 16, y22(hv[0], hv[1]), []int{0, 1, 2}, 64), nil, 0x40))
		}
	}
	add(specOf([]string{"DCTDecode"}, nil, tinyJPEG(0xc0, 8, 64, 48, y22(0x11, 0x22), []int{0, 1, 2}, 600), nil, 0))
	// Cb sampled more densely than Y
	add(specOf([]string{"DCTDecode"}, nil, tinyJPEG(0xc0, 8, 16, 16, []jpegComp{{1, 0x11, 0, 0}, {2, 0x22, 1, 0x11}, {3, 0x22, 1, 0x11}}, []int{0, 1, 2}, 64), nil, 0))
	add(specOf([]string{"DCTDecode"}, nil, tinyJPEG(0xc0, 8, 16, 16, []jpegComp{{1, 0x21, 0, 0}, {2, 0x12, 1, 0x11}, {3, 0x12, 1, 0x11}}, []int{0, 1, 2}, 64), nil, 0))
	// four frame components, three in the scan; three in the frame, four in the scan
	four := []jpegComp{{1, 0x22, 0, 0}, {2, 0x11, 1, 0x11}, {3, 0x11, 1, 0x11}, {4, 0x22, 0, 0}}
	add(specOf([]string{"DCTDecode"}, nil, tinyJPEG(0xc0, 8, 16, 16, four, []int{0, 1, 2}, 64), nil, 0))
	add(specOf([]string{"DCTDecode"}, nil, tinyJPEG(0xc0, 8, 16, 16, four, []int{0, 1, 2, 3}, 64), nil, 0))
	add(specOf([]string{"DCTDecode"}, nil, tinyJPEG(0xc0, 8, 16, 16, y22(0x11, 0x11), []int{0, 1, 2, 2}, 64), nil, 0))
	// precision 12 and 16, table selectors beyond the defined tables
	add(specOf([]string{"DCTDecode"}, nil, tinyJPEG(0xc1, 12, 16, 16, y22(0x11, 0x11), []int{0, 1, 2}, 64), nil, 0))
	add(specOf([]string{"DCTDecode"}, nil, tinyJPEG(0xc0, 16, 16, 16, y22(0x11, 0x11), []int{0, 1, 2}, 64), nil, 0))
	add(specOf([]string{"DCTDecode"}, nil, tinyJPEG(0xc0, 8, 16, 16, []jpegComp{{1, 0x22, 3, 0x33}, {2, 0x11, 1, 0x11}, {3, 0x11, 4, 0x44}}, []int{0, 1, 2}, 64), nil, 0))
	// a full scan repeated under each frame type
	for _, j := range jpegSeeds[:min(len(jpegSeeds), 5)] {
		for _, sof := range []int{0xc0, 0xc1, 0xc2} {
			for _, k := range []int{1, 2, 5} {
				if b := repeatScans(editJPEGHeader(j, []jpegEdit{{jeSOF, 0, sof}}), k); len(b) <= fuzzMaxBody {
					add(specOf([]string{"DCTDecode"}, nil, b, nil, 0x40))
				}
			}
		}
	}
	add(specOf([]string{"DCTDecode"}, nil, repeatScans(tinyJPEG(0xc1, 8, 16, 16, y22(0x11, 0x11), []int{0, 1, 2}, 64), 40), nil, 0))
	// the same edits on real encoder output (4:2:0 from image/jpeg)
	for _, j := range jpegSeeds {
		if sof, _ := jpegSegments(j); sof >= 0 && j[sof+9] == 3 {
			for _, hv := range []int{0x12, 0x21, 0x22} {
				add(specOf([]string{"DCTDecode"}, nil, editJPEGHeader(j, []jpegEdit{{jeSampling, 2, hv}}), nil, 0))
			}
			add(specOf([]string{"DCTDecode"}, nil, editJPEGHeader(j, []jpegEdit{{jeNf, 0, 4}}), nil, 0))
			add(specOf([]string{"DCTDecode"}, nil, editJPEGHeader(j, []jpegEdit{{jeNs, 0, 1}}), nil, 0))
			break
		}
	}
	// arithmetic symbol dictionaries refining single symbols: the stream of
	// seeded/C08-N/demo_test.go and variants with earlier, own, next,
	// last-slot and out-of-capacity references
	if demo, err := hex.DecodeString("0000000030000100000013" + "00000020000000200000000000000000010000" +
		"00000001000001" + "0000001c" + "000003fffdff02fefefe0000000100000001" + "4a7c8766f4d110bfffac" +
		"0000000200200101" + "00000012" + "140203ff0000000300000002" + "4a7edcafffac"); err == nil {
		add(specOf([]string{"JBIG2Decode"}, nil, demo, nil, 0x40))
	}
	for _, v := range [][5]int{{1, 2, 0, 0, 0}, {1, 2, 0, 1, 0}, {1, 2, 0, 2, 0}, {1, 2, 1, 2, 0}, {2, 5, 3, 6, 1}, {2, 5, 3, 5, 0}, {2, 5, 1, 6, 0}, {3, 6, 0, 8, 0}, {3, 5, 2, 7, -1}} {
		b, _, _ := refAggDictStream(v[0], v[1], v[2], v[3], v[4])
		add(specOf([]string{"JBIG2Decode"}, nil, b, nil, 0x40))
	}
	// halftone regions over pattern dictionaries of 1, 3, 4, 5 and 6 patterns
	for i, np := range []int{1, 3, 3, 4, 5, 6} {
		body, _, _ := halftoneSpec{numPats: np, patSize: 2 + 2*(i%2), gw: 5, gh: 4, mmr: i != 2, dictMMR: i%2 == 0, seed: uint64(i)}.build()
		add(specOf([]string{"JBIG2Decode"}, nil, body, nil, 0x40))
	}
	for _, s := range jb2Seeds {
		var ps []gen.O
		if len(s.globals) > 0 {
			ps = []gen.O{oDict(map[string]gen.O{"JBIG2Globals": oRef(5)})}
		}
		add(specOf([]string{"JBIG2Decode"}, ps, s.page, s.globals, 0x40))
		if len(s.page) < 1000 {
			if p, ok := patchJBIG2Dims(s.page, 65535, 65535, 1); ok {
				add(specOf([]string{"JBIG2Decode"}, ps, p, s.globals, 0))
			}
			if p, ok := patchJBIG2Dims(s.page, 1<<20, 64, 3); ok {
				add(specOf([]string{"JBIG2Decode"}, ps, p, s.globals, 0))
			}
		}
	}
	// bombs (small ones: the engine only needs the shape)
	for kind := 0; kind < nBombKinds; kind++ {
		b := getBomb(kind, 1)
		add(specOf(b.names, b.parms, b.body, nil, 0))
	}
	add(specOf([]string{"CCITTFaxDecode"}, []gen.O{oDict(map[string]gen.O{"K": oInt(-1), "Columns": oInt(4096)})}, bytes.Repeat([]byte{0xff}, 300), nil, 0x40))
	add(specOf([]string{"CCITTFaxDecode"}, []gen.O{oDict(map[string]gen.O{"K": oInt(-1), "Columns": oInt(1 << 20)})}, bytes.Repeat([]byte{0xff}, 300), nil, 1))
	// type confusion
	add(fuzzSpec{flags: 0, filters: []fuzzFilter{{name: 3, nondict: 0}}, body: []byte("x")})
	add(fuzzSpec{flags: 8, filters: []fuzzFilter{{name: 3, nondict: -1, kv: [][2]byte{{0, 20}}}}, body: []byte("x")})
	add(fuzzSpec{flags: 0, filters: []fuzzFilter{{name: 9, nondict: -1, kv: [][2]byte{{14, 0}}}, {name: 3, nondict: -1}}, body: encodeWith(fl, text)})
	return seeds
}

// ---------------------------------------------------------------------------
// statistics of a campaign: the executions happen in worker processes

func isFuzzWorker() bool {
	for _, a := range os.Args {
		if a == "-test.fuzzworker" || a == "--test.fuzzworker" {
			return true
		}
	}
	return false
}

func fuzzCampaignRan() bool {
	for _, a := range os.Args {
		if strings.HasPrefix(a, "-test.fuzz=") || a == "-test.fuzz" {
			return !isFuzzWorker()
		}
	}
	return false
}

type workerStats struct {
	Execs      int64          `json:"execs"`
	NonTrivial int64          `json:"nontrivial"`
	Classes    map[string]int `json:"classes"`
	Hashes     []uint64       `json:"hashes"`
	Failures   int            `json:"failures"`
}

var (
	wsMu    sync.Mutex
	ws      = workerStats{Classes: map[string]int{}}
	wsSeen  = map[uint64]bool{}
	fuzzSt  *vt.Stats
	fuzzStO sync.Once
)

func recordFuzz(c *Case, failed bool) {
	nt, cls := classify(c)
	if !isFuzzWorker() {
		fuzzStO.Do(func() { fuzzSt = vt.NewStats(property, "fuzz") })
		fuzzSt.Eval(vt.Hash(c), nt, append(cls, "seed-corpus")...)
		fuzzSt.Sample(func() any { return render(c) })
		return
	}
	wsMu.Lock()
	defer wsMu.Unlock()
	ws.Execs++
	for _, k := range cls {
		ws.Classes[k]++
	}
	ws.Classes["executed"]++
	if failed {
		ws.Failures++
	}
	if nt {
		ws.NonTrivial++
		if h := vt.Hash(c); !wsSeen[h] && len(ws.Hashes) < 1<<16 {
			wsSeen[h] = true
			ws.Hashes = append(ws.Hashes, h)
		}
	}
}

func flushWorkerStats() {
	work := os.Getenv("VERIF_WORK")
	if work == "" {
		return
	}
	wsMu.Lock()
	defer wsMu.Unlock()
	b, _ := json.Marshal(&ws)
	_ = os.WriteFile(filepath.Join(work, fmt.Sprintf("fuzzstats-%d.json", os.Getpid())), b, 0o644)
}

// fuzzPostProcess runs in the coordinating process after the campaign: it
// merges the statistics of the workers and converts every crasher the engine
// saved under testdata/fuzz/FuzzDecode into a replay file, after re-running
// it with the full oracle set (the engine also calls an input a crasher when
// one execution takes longer than 10 s, which is no correctness signal).
func fuzzPostProcess() int {
	if !fuzzCampaignRan() {
		return 0
	}
	fuzzStO.Do(func() { fuzzSt = vt.NewStats(property, "fuzz") })
	st := fuzzSt
	if work := os.Getenv("VERIF_WORK"); work != "" {
		files, _ := filepath.Glob(filepath.Join(work, "fuzzstats-*.json"))
		var execs, nt int64
		for _, f := range files {
			var w workerStats
			b, err := os.ReadFile(f)
			if err != nil || json.Unmarshal(b, &w) != nil {
				continue
			}
			for _, h := range w.Hashes {
				st.Eval(h, true)
			}
			execs += w.Execs - int64(len(w.Hashes))
			nt += w.NonTrivial - int64(len(w.Hashes))
			for k, v := range w.Classes {
				st.Class(k, v)
			}
			_ = os.Remove(f)
		}
		st.Evaluations += execs
		st.NonTrivial += nt
		st.Note("native campaign: %d worker statistics files merged; distinct non-trivial cases are counted up to 65536 per worker", len(files))
	}
	dir := filepath.Join("testdata", "fuzz", "FuzzDecode")
	ents, err := os.ReadDir(dir)
	if err != nil {
		return 0
	}
	rc := 0
	for _, e := range ents {
		path := filepath.Join(dir, e.Name())
		data, ok := readCorpusFile(path)
		if !ok {
			st.Note("cannot parse crasher file %s", e.Name())
			continue
		}
		spec := parseFuzzSpec(data)
		c := spec.toCase()
		err := vt.Guard(func() error { return checkCase(&c) })
		if err != nil {
			vt.Violation(property, kindCase, &c, "found by the native fuzzing campaign: "+err.Error())
			st.Class("crasher-confirmed", 1)
			rc = 1
		} else {
			st.Class("crasher-not-reproduced", 1)
			st.Note("engine reported %s as a crasher; the full check passes on it (slow input or engine time-out): inconclusive", e.Name())
		}
		_ = os.Remove(path)
	}
	_ = os.Remove(dir)
	_ = os.Remove(filepath.Join("testdata", "fuzz"))
	_ = os.Remove("testdata")
	return rc
}

func readCorpusFile(path string) ([]byte, bool) {
	b, err := os.ReadFile(path)
	if err != nil {
		return nil, false
	}
	lines := strings.Split(string(b), "\n")
	if len(lines) < 2 || !strings.HasPrefix(lines[0], "go test fuzz v1") {
		return nil, false
	}
	l := strings.TrimSpace(lines[1])
	if !strings.HasPrefix(l, "[]byte(") || !strings.HasSuffix(l, ")") {
		return nil, false
	}
	s, err := strconv.Unquote(l[len("[]byte(") : len(l)-1])
	if err != nil {
		return nil, false
	}
	return []byte(s), true
}

// FuzzDecode is the coverage-guided target (thorough tier only).
func FuzzDecode(f *testing.F) {
	for _, s := range fuzzSeeds() {
		f.Add(s)
	}
	// seed files: raw stream bodies under corpus/C08/fuzz, if any
	if ents, err := os.ReadDir(filepath.Join(corpusDir(), "fuzz")); err == nil {
		for _, e := range ents {
			if b, err := os.ReadFile(filepath.Join(corpusDir(), "fuzz", e.Name())); err == nil {
				f.Add(b)
			}
		}
	}
	f.Fuzz(func(t *testing.T, data []byte) {
		spec := parseFuzzSpec(data)
		c := spec.toCase()
		err := vt.Guard(func() error { return checkCase(&c) })
		recordFuzz(&c, err != nil)
		if err != nil {
			t.Fatalf("%v", err)
		}
	})
}

// TestFuzzSeeds runs the seed corpus of the fuzz target as ordinary cases
// (quick tier: the data-provider layer and the seeds stay healthy).
func TestFuzzSeeds(t *testing.T) {
	st := vt.NewStats(property, "fuzz-seeds")
	for i, s := range fuzzSeeds() {
		spec := parseFuzzSpec(s)
		c := spec.toCase()
		if !bytes.Equal(spec.bytes(), s) {
			t.Errorf("seed %d does not survive the data provider", i)
		}
		err := vt.Guard(func() error { return checkCase(&c) })
		nt, cls := classify(&c)
		st.Eval(vt.Hash(&c), nt, cls...)
		st.Sample(func() any { return render(&c) })
		if err != nil {
			vt.Violation(property, kindCase, &c, err.Error())
			t.Errorf("seed %d: %v", i, err)
		}
	}
}

// ---------------------------------------------------------------------------
// launcher: instrumented build and campaign rounds

const envFuzzChild = "VERIF_C08_FUZZ_CHILD"

// launchFuzz builds the package with coverage instrumentation (go test -c
// -fuzz), runs the campaign in that binary and merges its statistics.  A
// round which the engine ends early (it treats an input slower than 10 s as
// a crasher) is followed by another round until the requested time is used.
// ok is false if the instrumented binary could not be built.
func launchFuzz() (code int, ok bool) {
	work := os.Getenv("VERIF_WORK")
	if work == "" {
		return 0, false
	}
	bin := filepath.Join(work, "c08.fuzz.test")
	args := []string{"test", "-c", "-fuzz=^FuzzDecode$", "-tags", "verif", "-o", bin}
	if ov := os.Getenv("VERIF_OVERLAY"); ov != "" {
		args = append(args, "-overlay", ov)
	}
	args = append(args, "./checks/c08")
	build := exec.Command("go", args...)
	build.Dir = vt.Root()
	t0 := time.Now()
	if out, err := build.CombinedOutput(); err != nil {
		fmt.Printf("c08: go %s failed: %v\n%s\n", strings.Join(args, " "), err, out)
		return 0, false
	}
	st := vt.NewStats(property, "fuzz")
	st.Note("instrumented binary built in %.0f s", time.Since(t0).Seconds())

	total := 5 * time.Minute
	for _, a := range os.Args {
		if v, found := strings.CutPrefix(a, "-test.fuzztime="); found {
			if d, err := time.ParseDuration(v); err == nil {
				total = d
			}
		}
	}
	deadline := time.Now().Add(total)
	rounds := 0
	for ; rounds < 12; rounds++ {
		remaining := time.Until(deadline)
		if remaining < 10*time.Second {
			break
		}
		var cargs []string
		for _, a := range os.Args[1:] {
			if strings.HasPrefix(a, "-test.fuzztime=") {
				a = fmt.Sprintf("-test.fuzztime=%ds", int(remaining.Seconds()))
			}
			cargs = append(cargs, a)
		}
		stats := filepath.Join(work, fmt.Sprintf("fuzzround-%d.json", rounds))
		child := exec.Command(bin, cargs...)
		child.Env = append(os.Environ(), envFuzzChild+"=1", "VERIF_STATS="+stats)
		var out bytes.Buffer
		child.Stdout, child.Stderr = &out, &out
		err := child.Run()
		os.Stdout.Write(out.Bytes())
		mergeRound(st, stats)
		if bytes.Contains(out.Bytes(), []byte("VIOLATION property=")) {
			st.SetExtra("rounds", rounds+1)
			return 1, true
		}
		if err != nil {
			fmt.Printf("c08: campaign process failed: %v\n", err)
			if jp := journalPath(); jp != "" {
				if _, serr := os.Stat(jp); serr == nil {
					// it died while re-running a crasher with the full
					// oracle set: the journal names the case and the
					// driver reports it (crash_is_violation)
					st.SetExtra("rounds", rounds+1)
					return 3, true
				}
			}
			// no case was being re-run: an infrastructure failure of this
			// round (killed, out of memory in the engine), not a verdict
			st.Note("round %d: campaign process failed without a case in flight (%v)", rounds, err)
		}
	}
	st.SetExtra("rounds", rounds)
	return 0, true
}

func mergeRound(st *vt.Stats, path string) {
	b, err := os.ReadFile(path)
	if err != nil {
		return
	}
	var doc struct {
		Stats []struct {
			Job         string         `json:"job"`
			Evaluations int64          `json:"evaluations"`
			NonTrivial  int64          `json:"nontrivial"`
			Classes     map[string]int `json:"classes"`
			Samples     []any          `json:"samples"`
			Notes       []string       `json:"notes"`
		} `json:"stats"`
	}
	if json.Unmarshal(b, &doc) != nil {
		return
	}
	hb, _ := os.ReadFile(path + ".hashes")
	n := int64(len(hb) / 8)
	for i := int64(0); i < n; i++ {
		st.Eval(binary.LittleEndian.Uint64(hb[8*i:]), true)
	}
	var ev, nt int64
	for _, s := range doc.Stats {
		ev += s.Evaluations
		nt += s.NonTrivial
		for k, v := range s.Classes {
			st.Class(k, v)
		}
		for _, smp := range s.Samples {
			smp := smp
			st.Sample(func() any { return smp })
		}
		for _, note := range s.Notes {
			st.Note("%s", note)
		}
	}
	st.Evaluations += ev - n
	st.NonTrivial += nt - n
}
