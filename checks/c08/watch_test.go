package c08

import (
	"encoding/json"
	"fmt"
	"os"
	"path/filepath"
	"regexp"
	"runtime"
	"strconv"
	"strings"
	"sync"
	"syscall"
	"time"

	"seehuhn.de/go/pdf/verif/internal/vt"
)

// ---------------------------------------------------------------------------
// journal: the case about to run is written to disk first, so that a Go
// fatal error (stack overflow, out of memory under ulimit -v, deadlock)
// leaves a witness; the driver reports it (crash_is_violation).

func journalPath() string {
	work, job := os.Getenv("VERIF_WORK"), os.Getenv("VERIF_JOB")
	if work == "" || job == "" || isFuzzWorker() {
		return ""
	}
	shard := os.Getenv("VERIF_SHARD")
	if shard == "" {
		shard = "0"
	}
	return filepath.Join(work, fmt.Sprintf("journal-%s-%s.json", job, shard))
}

func journal(c *Case) {
	path := journalPath()
	if path == "" {
		return
	}
	raw, err := json.Marshal(c)
	if err != nil {
		return
	}
	env := vt.Envelope{Property: property, Kind: kindCase,
		Message: "journalled before execution: the test process died while running this case", Case: raw}
	b, _ := json.Marshal(env)
	_ = os.WriteFile(path, b, 0o644)
}

// ---------------------------------------------------------------------------
// goroutine inspection

type gor struct {
	id    int
	state string
	text  string
}

var (
	stackBuf = make([]byte, 1<<20)
	stackMu  sync.Mutex
	gorHead  = regexp.MustCompile(`^goroutine (\d+) \[([^\]]*)\]`)
)

func allGoroutines() []gor {
	stackMu.Lock()
	defer stackMu.Unlock()
	for {
		n := runtime.Stack(stackBuf, true)
		if n < len(stackBuf) {
			return parseGoroutines(string(stackBuf[:n]))
		}
		stackBuf = make([]byte, 2*len(stackBuf))
	}
}

func parseGoroutines(dump string) []gor {
	var out []gor
	for _, blk := range strings.Split(dump, "\n\n") {
		m := gorHead.FindStringSubmatch(blk)
		if m == nil {
			continue
		}
		id, _ := strconv.Atoi(m[1])
		st := m[2]
		if i := strings.IndexByte(st, ','); i >= 0 {
			st = st[:i]
		}
		out = append(out, gor{id: id, state: strings.TrimSpace(st), text: blk})
	}
	return out
}

func currentGoroutine() int {
	var b [64]byte
	n := runtime.Stack(b[:], false)
	m := gorHead.FindStringSubmatch(string(b[:n]))
	if m == nil {
		return -1
	}
	id, _ := strconv.Atoi(m[1])
	return id
}

// parked reports whether a goroutine in this state can only be woken by
// another goroutine (not by the scheduler, a timer or the kernel).
func parked(state string) bool {
	switch {
	case strings.HasPrefix(state, "chan receive"), strings.HasPrefix(state, "chan send"),
		strings.HasPrefix(state, "select"), strings.HasPrefix(state, "sync."), state == "semacquire":
		return true
	}
	return false
}

func inLibrary(text string) bool {
	for _, line := range strings.Split(text, "\n") {
		if strings.HasPrefix(line, "seehuhn.de/go/pdf") && !strings.HasPrefix(line, "seehuhn.de/go/pdf/verif/") {
			return true
		}
		if strings.Contains(line, "created by seehuhn.de/go/pdf") && !strings.Contains(line, "created by seehuhn.de/go/pdf/verif/") {
			return true
		}
	}
	return false
}

// baseline is the set of goroutines alive when a run started.
type baseline struct {
	n   int
	ids map[int]bool
}

func takeBaseline() baseline {
	b := baseline{n: runtime.NumGoroutine(), ids: map[int]bool{}}
	for _, g := range allGoroutines() {
		b.ids[g.id] = true
	}
	return b
}

func (b baseline) extra() []gor {
	me := currentGoroutine()
	var out []gor
	for _, g := range allGoroutines() {
		if !b.ids[g.id] && g.id != me {
			out = append(out, g)
		}
	}
	return out
}

// checkGoroutines is oracle 3.  It polls for up to 2 s; goroutines that are
// still computing (running/runnable) get up to 60 s more and are never a
// violation by themselves; goroutines parked in library frames are.
func checkGoroutines(b baseline, what string) error {
	if runtime.NumGoroutine() <= b.n {
		return nil
	}
	deadline := time.Now().Add(2 * time.Second)
	hard := time.Now().Add(62 * time.Second)
	sleep := 200 * time.Microsecond
	for {
		ex := b.extra()
		if len(ex) == 0 {
			return nil
		}
		now := time.Now()
		if now.After(deadline) {
			busy := false
			for _, g := range ex {
				if !parked(g.state) {
					busy = true
				}
			}
			if !busy || now.After(hard) {
				var leaked []string
				for _, g := range ex {
					if inLibrary(g.text) {
						leaked = append(leaked, g.text)
					}
				}
				if len(leaked) == 0 {
					return nil // not the library's goroutines
				}
				return fmt.Errorf("%s: %d goroutine(s) started by the decoder are still alive 2 s after Close:\n%s",
					what, len(leaked), strings.Join(leaked, "\n\n"))
			}
		}
		time.Sleep(sleep)
		if sleep < 20*time.Millisecond {
			sleep *= 2
		}
	}
}

// ---------------------------------------------------------------------------
// watchdog: termination oracle

const (
	cpuHangLimit  = 300 * time.Second // = three re-runs with 20x the 5 s budget
	wallHangLimit = 1200 * time.Second
)

type watchdog struct {
	once sync.Once
	mu   sync.Mutex

	active  bool
	c       *Case
	what    string
	gid     int
	base    baseline
	start   time.Time
	cpu0    time.Duration
	samples int
	lastSig string
}

var wd watchdog

func cpuTime() time.Duration {
	var ru syscall.Rusage
	if syscall.Getrusage(syscall.RUSAGE_SELF, &ru) != nil {
		return 0
	}
	return time.Duration(ru.Utime.Nano() + ru.Stime.Nano())
}

func (w *watchdog) begin(c *Case, what string) baseline {
	w.once.Do(func() { go w.loop() })
	b := takeBaseline()
	w.mu.Lock()
	w.active, w.c, w.what, w.gid, w.base = true, c, what, currentGoroutine(), b
	w.start, w.cpu0, w.samples, w.lastSig = time.Now(), cpuTime(), 0, ""
	w.mu.Unlock()
	return b
}

func (w *watchdog) end() time.Duration {
	w.mu.Lock()
	defer w.mu.Unlock()
	w.active = false
	return time.Since(w.start)
}

func (w *watchdog) loop() {
	for {
		time.Sleep(250 * time.Millisecond)
		w.mu.Lock()
		if !w.active || time.Since(w.start) < time.Second {
			w.mu.Unlock()
			continue
		}
		msg := ""
		switch {
		case cpuTime()-w.cpu0 > cpuHangLimit:
			msg = fmt.Sprintf("hang: %s consumed more than %v of CPU time without finishing", w.what, cpuHangLimit)
		case time.Since(w.start) > wallHangLimit:
			msg = fmt.Sprintf("hang: %s did not finish within %v", w.what, wallHangLimit)
		default:
			// deadlock: the goroutine running the case is parked and so is
			// every goroutine started since the case began
			gs := allGoroutines()
			sig, dead := "", false
			for _, g := range gs {
				if g.id == w.gid {
					dead = parked(g.state)
					sig += g.text
				}
			}
			for _, g := range gs {
				if g.id != w.gid && !w.base.ids[g.id] {
					if !parked(g.state) {
						dead = false
					}
					sig += fmt.Sprintf("|%d:%s", g.id, g.state)
				}
			}
			if dead && sig == w.lastSig {
				w.samples++
			} else {
				w.samples = 0
			}
			w.lastSig = sig
			if !dead {
				w.lastSig = ""
			}
			if dead && w.samples >= 4 {
				msg = fmt.Sprintf("deadlock: %s is blocked and no goroutine is left which could wake it:\n%s", w.what, sig)
			}
		}
		if msg == "" {
			w.mu.Unlock()
			continue
		}
		c := w.c
		w.mu.Unlock()
		vt.Violation(property, kindCase, c, msg)
		if isFuzzWorker() {
			flushWorkerStats()
		} else {
			vt.Flush()
		}
		os.Exit(1)
	}
}
