// Package c12 checks property C12: the character-code codec implements
// exactly its code space ranges.
package c12

import (
	"bytes"
	"fmt"
	"os"
	"testing"

	"pgregory.net/rapid"
	"seehuhn.de/go/pdf/font/charcode"
	"seehuhn.de/go/pdf/verif/internal/cmapmodel"
	"seehuhn.de/go/pdf/verif/internal/vt"
)

func TestMain(m *testing.M) { vt.Main(m) }

const property = "C12"

// Case is a set of code space ranges, optionally a second set for the
// Equivalent verdict, and a seed which selects the representatives when a
// byte position has too many of them to try all.
type Case struct {
	Ranges cmapmodel.Set `json:"ranges"`
	Other  cmapmodel.Set `json:"other,omitempty"`
	Seed   uint64        `json:"seed"`

	obs observed
}

// observed is what the check saw; Classify reads it.
type observed struct {
	validSet            bool
	accepted            bool // NewCodec's verdict (recorded only for invalid sets)
	strings             int
	validCodes          int
	validLong           int // valid codes of length >= 3
	invalidMulti        int // invalid codes where the specification asks for >= 2 bytes
	truncated           int
	repsSampled         bool
	csrChanged          bool
	merged              bool // a reported range spans more than one input range
	calledTwice         bool // the observers were called again (history)
	fixpointListDiffers bool
	otherVerdict        int // 0 none, 1 same codes, 2 different codes
	stringsCapped       bool
}

const (
	maxRepsPerPos = 12
	maxStrings    = 40000
)

func toLib(s cmapmodel.Set) charcode.CodeSpaceRange {
	out := make(charcode.CodeSpaceRange, len(s))
	for i, r := range s {
		out[i] = charcode.Range{Low: append([]byte(nil), r.Low...), High: append([]byte(nil), r.High...)}
	}
	return out
}

func fromLib(s charcode.CodeSpaceRange) cmapmodel.Set {
	out := make(cmapmodel.Set, len(s))
	for i, r := range s {
		out[i] = cmapmodel.Range{Low: append([]byte(nil), r.Low...), High: append([]byte(nil), r.High...)}
	}
	return out
}

func leCode(s []byte) charcode.Code {
	var c charcode.Code
	for i, b := range s {
		c |= charcode.Code(b) << (8 * i)
	}
	return c
}

// checker bundles what the per-string checks need.
type checker struct {
	set   cmapmodel.Set
	codec *charcode.Codec
	obs   *observed
	buf   []byte
}

var appendPrefix = []byte{0xAA, 0x55, 0x00}

// checkString compares Codec.Decode / AppendCode on s with the reference.
func (k *checker) checkString(s []byte) error {
	k.obs.strings++
	code, consumed, valid := k.codec.Decode(s)
	if len(s) == 0 {
		if code != 0 || consumed != 0 || valid {
			return fmt.Errorf("Decode(empty) = (%#x, %d, %v), documented is (0, 0, false)", code, consumed, valid)
		}
		return nil
	}
	// the statement's general bounds
	if consumed < 1 || consumed > len(s) {
		return fmt.Errorf("Decode(%x) consumed %d bytes of %d", s, consumed, len(s))
	}
	var want int
	if len(k.set) == 0 {
		// No range at all: the specification prescribes no length.  Only the
		// general bounds and "not valid" are asserted.
		if valid {
			return fmt.Errorf("Decode(%x) reports a valid code for an empty code space", s)
		}
		want = consumed
	} else {
		refConsumed, refValid, w := k.set.Decode(s)
		want = w
		if valid != refValid {
			return fmt.Errorf("Decode(%x): valid = %v, reference says %v (code space %v)", s, valid, refValid, k.set)
		}
		if consumed != refConsumed {
			return fmt.Errorf("Decode(%x): consumed %d bytes (valid=%v), the specification prescribes %d (code space %v)",
				s, consumed, valid, refConsumed, k.set)
		}
		switch {
		case refValid:
			k.obs.validCodes++
			if refConsumed >= 3 {
				k.obs.validLong++
			}
		case w > len(s):
			k.obs.truncated++
		case w >= 2:
			k.obs.invalidMulti++
		}
	}
	if want := leCode(s[:consumed]); code != want {
		return fmt.Errorf("Decode(%x): code %#x, the consumed bytes give %#x", s, code, want)
	}

	// decode, then encode
	k.buf = append(k.buf[:0], appendPrefix...)
	out := k.codec.AppendCode(k.buf, code)
	if len(out) < len(appendPrefix) || !bytes.Equal(out[:len(appendPrefix)], appendPrefix) {
		return fmt.Errorf("AppendCode(%#x) damaged the slice it appends to: %x", code, out)
	}
	enc := out[len(appendPrefix):]
	if want <= len(s) {
		// the whole code was available
		if !bytes.Equal(enc, s[:consumed]) {
			return fmt.Errorf("AppendCode(Decode(%x)) = %x, want the consumed bytes %x (valid=%v, code space %v)",
				s, enc, s[:consumed], valid, k.set)
		}
	} else {
		// Input ended inside the code: the library re-encodes such a code
		// with zero bytes filled in (accepted, DESIGN.md section 5).
		if len(enc) < consumed || len(enc) > 4 || !bytes.Equal(enc[:consumed], s[:consumed]) {
			return fmt.Errorf("AppendCode(Decode(%x)) = %x does not start with the consumed bytes", s, enc)
		}
		for _, b := range enc[consumed:] {
			if b != 0 {
				return fmt.Errorf("AppendCode(Decode(%x)) = %x: padding is not zero", s, enc)
			}
		}
	}

	// encode, then decode (valid codes)
	if valid {
		c2, n2, v2 := k.codec.Decode(enc)
		if c2 != code || n2 != len(enc) || !v2 {
			return fmt.Errorf("Decode(AppendCode(%#x)) = (%#x, %d, %v), want (%#x, %d, true)", code, c2, n2, v2, code, len(enc))
		}
	}
	return nil
}

// reps returns the representatives for a byte position, cut down to
// maxRepsPerPos values (always keeping 00 and FF) if there are more.
func (k *checker) reps(pos int, seed uint64) []byte {
	r := cmapmodel.Reps(pos, true, k.set)
	if len(r) <= maxRepsPerPos {
		return r
	}
	k.obs.repsSampled = true
	rng := vt.NewRand(seed ^ uint64(pos+1)*0x9E3779B97F4A7C15)
	// partial Fisher-Yates over the inner values
	inner := append([]byte(nil), r[1:len(r)-1]...)
	for i := 0; i < maxRepsPerPos-2; i++ {
		j := i + rng.Intn(len(inner)-i)
		inner[i], inner[j] = inner[j], inner[i]
	}
	out := append([]byte{r[0]}, inner[:maxRepsPerPos-2]...)
	out = append(out, r[len(r)-1])
	return out
}

// walk checks every string of up to 4 representative bytes.  Below a prefix
// which the reference has decoded completely, further bytes are only a tail:
// there, a few tails are tried instead of the whole subtree.
func (k *checker) walk(seed uint64) error {
	var reps [4][]byte
	for i := range reps {
		reps[i] = k.reps(i, seed)
	}
	if err := k.checkString(nil); err != nil {
		return err
	}
	var buf [8]byte
	var rec func(n int) error
	rec = func(n int) error {
		if n > 0 {
			if err := k.checkString(buf[:n]); err != nil {
				return err
			}
			complete := true
			if len(k.set) > 0 {
				_, _, want := k.set.Decode(buf[:n])
				complete = want <= n
			}
			if complete {
				// tails must not influence the result
				for _, fill := range []byte{0x00, 0xFF} {
					for m := n + 1; m <= 5; m++ {
						buf[m-1] = fill
						if m == n+1 || m >= 4 {
							if err := k.checkString(buf[:m]); err != nil {
								return err
							}
						}
					}
				}
				return nil
			}
		}
		if n == 4 {
			return nil
		}
		for _, b := range reps[n] {
			if k.obs.strings > maxStrings {
				k.obs.stringsCapped = true
				return nil
			}
			buf[n] = b
			if err := rec(n + 1); err != nil {
				return err
			}
		}
		return nil
	}
	return rec(0)
}

func checkCase(c *Case) error {
	c.obs = observed{}
	obs := &c.obs
	for _, r := range c.Ranges {
		if !r.WellFormed() {
			return fmt.Errorf("generator error: range %v is not well formed", r)
		}
	}
	obs.validSet = c.Ranges.Valid()
	if !obs.validSet {
		// Outside the domain of the property: record the verdict only.
		_ = vt.Guard(func() error {
			_, err := charcode.NewCodec(toLib(c.Ranges))
			obs.accepted = err == nil
			return nil
		})
		return nil
	}

	in := toLib(c.Ranges)
	codec, err := charcode.NewCodec(in)
	if err != nil {
		return fmt.Errorf("NewCodec rejects the valid code space %v: %v", c.Ranges, err)
	}

	// a second codec from the same ranges, built before anything is observed
	twin, err := charcode.NewCodec(toLib(c.Ranges))
	if err != nil {
		return fmt.Errorf("second NewCodec rejects the valid code space %v: %v", c.Ranges, err)
	}

	k := &checker{set: c.Ranges, codec: codec, obs: obs}
	if err := k.walk(c.Seed); err != nil {
		return err
	}

	// the reported range set describes exactly the same codes
	rep := codec.CodeSpaceRange()
	repSet := fromLib(rep)
	for _, r := range repSet {
		if !r.WellFormed() {
			return fmt.Errorf("CodeSpaceRange() of %v contains the malformed range %v", c.Ranges, r)
		}
	}
	if !repSet.Valid() {
		return fmt.Errorf("CodeSpaceRange() of %v is %v, which is not prefix free", c.Ranges, repSet)
	}
	if same, w := cmapmodel.SameCodes(c.Ranges, repSet); !same {
		return fmt.Errorf("CodeSpaceRange() of %v is %v; <%x> is a code of only one of them", c.Ranges, repSet, w)
	}
	if !in.Equivalent(rep) || !rep.Equivalent(in) {
		return fmt.Errorf("Equivalent(%v, %v) is false, but both describe the same codes", c.Ranges, repSet)
	}
	obs.csrChanged = !bytes.Equal(flat(in), flat(rep))
	if obs.csrChanged {
		// the reported set must be usable in place of the original
		codec2, err := charcode.NewCodec(rep)
		if err != nil {
			return fmt.Errorf("NewCodec rejects %v, reported by CodeSpaceRange() for %v: %v", repSet, c.Ranges, err)
		}
		rep2 := fromLib(codec2.CodeSpaceRange())
		if same, w := cmapmodel.SameCodes(c.Ranges, rep2); !same {
			return fmt.Errorf("CodeSpaceRange() is not stable: %v -> %v -> %v, differ at <%x>", c.Ranges, repSet, rep2, w)
		}
	}

	if err := checkHistory(c, k, twin, rep, repSet); err != nil {
		return err
	}

	// Equivalent against a second valid set
	if len(c.Other) > 0 {
		for _, r := range c.Other {
			if !r.WellFormed() {
				return fmt.Errorf("generator error: range %v is not well formed", r)
			}
		}
		if c.Other.Valid() {
			same, w := cmapmodel.SameCodes(c.Ranges, c.Other)
			other := toLib(c.Other)
			if got := in.Equivalent(other); got != same {
				return fmt.Errorf("%v.Equivalent(%v) = %v, reference says %v (witness <%x>)", c.Ranges, c.Other, got, same, w)
			}
			if got := other.Equivalent(in); got != same {
				return fmt.Errorf("%v.Equivalent(%v) = %v, reference says %v (witness <%x>)", c.Other, c.Ranges, got, same, w)
			}
			if same {
				obs.otherVerdict = 1
			} else {
				obs.otherVerdict = 2
			}
		}
	}
	return nil
}

// checkReported verifies that a reported range set is well formed, prefix
// free and describes exactly the codes of the case.
func checkReported(c *Case, rep charcode.CodeSpaceRange, what string) error {
	repSet := fromLib(rep)
	for _, r := range repSet {
		if !r.WellFormed() {
			return fmt.Errorf("%s of %v contains the malformed range %v (whole list %v)", what, c.Ranges, r, repSet)
		}
	}
	if !repSet.Valid() {
		return fmt.Errorf("%s of %v is %v, which is not prefix free", what, c.Ranges, repSet)
	}
	if same, w := cmapmodel.SameCodes(c.Ranges, repSet); !same {
		return fmt.Errorf("%s of %v is %v; <%x> is a code of only one of them", what, c.Ranges, repSet, w)
	}
	return nil
}

func deepCopy(s charcode.CodeSpaceRange) charcode.CodeSpaceRange {
	return toLib(fromLib(s))
}

// checkHistory treats the codec as an object with a history: every observer
// is called again, interleaved with the others, and must keep giving the
// answers of the unchanged code space.  first is the result of the first
// CodeSpaceRange() call (already verified against the model).
func checkHistory(c *Case, k *checker, twin *charcode.Codec, first charcode.CodeSpaceRange, firstSet cmapmodel.Set) error {
	obs := k.obs
	codec := k.codec
	want := flat(first)
	keep := deepCopy(first)

	// a reported range which no single input range contains: leaves were merged
	for _, r := range firstSet {
		contained := false
		for _, q := range c.Ranges {
			if q.Len() != r.Len() {
				continue
			}
			inside := true
			for i := range r.Low {
				if r.Low[i] < q.Low[i] || r.High[i] > q.High[i] {
					inside = false
				}
			}
			if inside {
				contained = true
			}
		}
		if !contained {
			obs.merged = true
		}
	}

	// a few strings for the calls in between: the bounds of the ranges, with
	// a tail, and their neighbours
	var samples [][]byte
	for i, r := range c.Ranges {
		if i >= 3 {
			break
		}
		samples = append(samples, append(append([]byte(nil), r.Low...), 0x00), append(append([]byte(nil), r.High...), 0xFF))
		x := append([]byte(nil), r.High...)
		x[len(x)-1]++
		samples = append(samples, x, x[:1])
	}
	decodeSome := func() error {
		for _, s := range samples {
			if err := k.checkString(s); err != nil {
				return err
			}
		}
		return nil
	}

	if err := decodeSome(); err != nil {
		return err
	}
	second := codec.CodeSpaceRange()
	if err := checkReported(c, second, "the second CodeSpaceRange()"); err != nil {
		return err
	}
	if !bytes.Equal(flat(second), want) {
		return fmt.Errorf("CodeSpaceRange() of %v: first call %v, second call %v", c.Ranges, firstSet, fromLib(second))
	}

	// the results belong to the caller: overwrite the first one completely
	for i := range first {
		for j := range first[i].Low {
			first[i].Low[j] = 0xEE
			first[i].High[j] = 0x11
		}
	}
	for i := range first {
		first[i] = charcode.Range{Low: []byte{0xFF, 0xFF, 0xFF, 0xFF, 0xFF}, High: []byte{0x00}}
	}
	if !bytes.Equal(flat(second), want) {
		return fmt.Errorf("CodeSpaceRange() of %v: the results of two calls share memory", c.Ranges)
	}
	if err := decodeSome(); err != nil {
		return fmt.Errorf("after the caller overwrote a CodeSpaceRange() result: %v", err)
	}
	third := codec.CodeSpaceRange()
	if err := checkReported(c, third, "the third CodeSpaceRange() (after the caller overwrote the first result)"); err != nil {
		return err
	}
	if !bytes.Equal(flat(third), want) {
		return fmt.Errorf("CodeSpaceRange() of %v: first call %v, third call (after the caller overwrote the first result) %v", c.Ranges, firstSet, fromLib(third))
	}
	// ... and shorten the third one
	if len(third) > 0 {
		third = third[:len(third)-1]
		_ = third
	}
	obs.calledTwice = true

	// the twin, built from the same ranges before anything was observed
	twinRep := twin.CodeSpaceRange()
	if err := checkReported(c, twinRep, "CodeSpaceRange() of a second codec for the same ranges"); err != nil {
		return err
	}
	if !bytes.Equal(flat(twinRep), want) {
		return fmt.Errorf("two codecs built from %v report %v and %v", c.Ranges, firstSet, fromLib(twinRep))
	}
	kt := &checker{set: c.Ranges, codec: twin, obs: obs}
	for _, s := range samples {
		if err := kt.checkString(s); err != nil {
			return fmt.Errorf("second codec for the same ranges: %v", err)
		}
	}
	if again := twin.CodeSpaceRange(); !bytes.Equal(flat(again), want) {
		return fmt.Errorf("second codec for %v: first call %v, second call %v", c.Ranges, firstSet, fromLib(again))
	}

	// a codec built from the reported set reports the same codes again, on
	// every call
	rebuilt, err := charcode.NewCodec(deepCopy(keep))
	if err != nil {
		return fmt.Errorf("NewCodec rejects %v, reported by CodeSpaceRange() for %v: %v", firstSet, c.Ranges, err)
	}
	for call := 1; call <= 2; call++ {
		rr := rebuilt.CodeSpaceRange()
		if err := checkReported(c, rr, fmt.Sprintf("CodeSpaceRange() (call %d) of a codec built from the reported set %v", call, firstSet)); err != nil {
			return err
		}
		if !bytes.Equal(flat(rr), want) {
			// not a violation: the statement does not ask for a canonical list
			obs.fixpointListDiffers = true
			if os.Getenv("C12_FIXPOINT_STRICT") != "" { // for looking at examples
				return fmt.Errorf("codec for %v reports %v; a codec built from that reports %v", c.Ranges, firstSet, fromLib(rr))
			}
		}
	}

	// the original codec once more, after all of this
	if err := decodeSome(); err != nil {
		return err
	}
	if last := codec.CodeSpaceRange(); !bytes.Equal(flat(last), want) {
		return fmt.Errorf("CodeSpaceRange() of %v: first call %v, last call %v", c.Ranges, firstSet, fromLib(last))
	}
	return nil
}

func flat(s charcode.CodeSpaceRange) []byte {
	var out []byte
	for _, r := range s {
		out = append(out, byte(len(r.Low)))
		out = append(out, r.Low...)
		out = append(out, byte(len(r.High)))
		out = append(out, r.High...)
	}
	return out
}

// siblingGapShape reports whether two ranges of equal length >= 2 have
// disjoint bytes at some position and, in a later position, the same upper
// but a different lower bound (or vice versa): the sub-trees below the two
// prefixes then differ only in where their invalid gaps are.
func siblingGapShape(s cmapmodel.Set) bool {
	for i, a := range s {
		for _, b := range s[i+1:] {
			if a.Len() != b.Len() || a.Len() < 2 {
				continue
			}
			for p := 0; p+1 < a.Len(); p++ {
				if a.High[p] >= b.Low[p] && b.High[p] >= a.Low[p] {
					continue // not disjoint here
				}
				for q := p + 1; q < a.Len(); q++ {
					if (a.High[q] == b.High[q]) != (a.Low[q] == b.Low[q]) {
						return true
					}
				}
			}
		}
	}
	return false
}

func classify(c *Case) (bool, []string) {
	o := &c.obs
	var cls []string
	if !o.validSet {
		cls = append(cls, "invalid-set")
		if o.accepted {
			cls = append(cls, "invalid-set-accepted")
		} else {
			cls = append(cls, "invalid-set-rejected")
		}
		return false, cls
	}
	cls = append(cls, "valid-set", fmt.Sprintf("ranges=%d", len(c.Ranges)))
	lens := map[int]bool{}
	for _, r := range c.Ranges {
		lens[r.Len()] = true
	}
	if len(lens) >= 2 {
		cls = append(cls, "mixed-lengths")
	}
	if lens[4] {
		cls = append(cls, "has-len4")
	}
	if siblingGapShape(c.Ranges) {
		cls = append(cls, "sibling-gap-shape")
	}
	if o.validLong > 0 {
		cls = append(cls, "valid-code-len>=3")
	}
	if o.invalidMulti > 0 {
		cls = append(cls, "invalid-consume>=2")
	}
	if o.truncated > 0 {
		cls = append(cls, "truncated")
	}
	if o.repsSampled {
		cls = append(cls, "reps-sampled")
	}
	if o.stringsCapped {
		cls = append(cls, "strings-capped")
	}
	if o.csrChanged {
		cls = append(cls, "csr-differs-from-input")
	}
	if o.calledTwice {
		cls = append(cls, "codespacerange-called-twice")
		if o.merged {
			cls = append(cls, "codespacerange-called-twice-after-merge")
		}
	}
	if o.fixpointListDiffers {
		cls = append(cls, "rebuilt-codec-lists-ranges-differently")
	}
	switch o.otherVerdict {
	case 1:
		cls = append(cls, "equiv-true")
	case 2:
		cls = append(cls, "equiv-false")
	}
	nt := len(c.Ranges) >= 2 || (len(c.Ranges) == 1 && c.Ranges[0].Len() >= 2)
	return nt, cls
}

// genOther derives the second set: the same codes written differently, a
// one-step perturbation of one bound, or an independent set.
func genOther(t *rapid.T, set cmapmodel.Set) cmapmodel.Set {
	if len(set) == 0 {
		return nil
	}
	switch rapid.IntRange(0, 5).Draw(t, "otherkind") {
	case 0:
		return nil
	case 1, 2:
		// split one range in two at some byte position (same codes), and rotate
		o := set.Clone()
		i := rapid.IntRange(0, len(o)-1).Draw(t, "split-range")
		p := rapid.IntRange(0, o[i].Len()-1).Draw(t, "split-pos")
		if o[i].Low[p] < o[i].High[p] {
			m := o[i].Low[p] + byte(rapid.IntRange(0, int(o[i].High[p]-o[i].Low[p])-1).Draw(t, "split-at"))
			second := cmapmodel.Set{o[i]}.Clone()[0]
			o[i].High[p] = m
			second.Low[p] = m + 1
			o = append(o, second)
		}
		k := rapid.IntRange(0, len(o)-1).Draw(t, "rotate")
		return append(o[k:], o[:k]...)
	case 3, 4:
		// move one bound by one
		o := set.Clone()
		i := rapid.IntRange(0, len(o)-1).Draw(t, "perturb-range")
		p := rapid.IntRange(0, o[i].Len()-1).Draw(t, "perturb-pos")
		if rapid.Bool().Draw(t, "perturb-last") {
			p = o[i].Len() - 1
		}
		switch rapid.IntRange(0, 3).Draw(t, "perturb-kind") {
		case 0:
			if o[i].Low[p] < o[i].High[p] {
				o[i].Low[p]++
			}
		case 1:
			if o[i].Low[p] > 0 {
				o[i].Low[p]--
			}
		case 2:
			if o[i].High[p] > o[i].Low[p] {
				o[i].High[p]--
			}
		default:
			if o[i].High[p] < 0xFF {
				o[i].High[p]++
			}
		}
		return o
	default:
		return cmapmodel.GenSet(t, cmapmodel.GenOpts{MaxRanges: 4, ValidOnly: true})
	}
}

var randomProp = &vt.Prop[Case]{
	Property: property,
	Kind:     "c12-ranges",
	Gen: func(t *rapid.T) Case {
		var c Case
		c.Ranges = cmapmodel.GenSet(t, cmapmodel.GenOpts{MaxRanges: 6, MaxLen: 4})
		c.Other = genOther(t, c.Ranges)
		c.Seed = rapid.Uint64().Draw(t, "seed")
		return c
	},
	Check:    checkCase,
	Classify: classify,
	Render: func(c *Case) any {
		m := map[string]any{"ranges": c.Ranges.String(), "strings_checked": c.obs.strings}
		if len(c.Other) > 0 {
			m["other"] = c.Other.String()
		}
		return m
	},
}

// genMergeable draws a valid set in which ranges were cut into adjacent
// pieces (so that CodeSpaceRange() has leaves to merge), sometimes with one
// piece removed, e.g. <00>-<3F>, <40>-<7F>, <90>-<FF>.
func genMergeable(t *rapid.T) cmapmodel.Set {
	set := cmapmodel.GenSet(t, cmapmodel.GenOpts{MaxRanges: 3, MaxLen: 4, ValidOnly: true}).Clone()
	for n := rapid.IntRange(1, 4).Draw(t, "cuts"); n > 0; n-- {
		i := rapid.IntRange(0, len(set)-1).Draw(t, "cut-range")
		p := rapid.IntRange(0, set[i].Len()-1).Draw(t, "cut-pos")
		if rapid.Bool().Draw(t, "cut-last") {
			p = set[i].Len() - 1
		}
		if set[i].Low[p] >= set[i].High[p] {
			continue
		}
		m := set[i].Low[p] + byte(rapid.IntRange(0, int(set[i].High[p]-set[i].Low[p])-1).Draw(t, "cut-at"))
		second := cmapmodel.Set{set[i]}.Clone()[0]
		set[i].High[p] = m
		second.Low[p] = m + 1
		set = append(set, second)
	}
	if len(set) > 2 && rapid.IntRange(0, 2).Draw(t, "drop") == 0 {
		j := rapid.IntRange(0, len(set)-1).Draw(t, "drop-which")
		set = append(set[:j], set[j+1:]...)
	}
	perm := rapid.Permutation(func() []int {
		ix := make([]int, len(set))
		for i := range ix {
			ix[i] = i
		}
		return ix
	}()).Draw(t, "order")
	out := make(cmapmodel.Set, len(set))
	for i, j := range perm {
		out[i] = set[j]
	}
	return out
}

// historyProp runs the same check on sets made for merging.
var historyProp = &vt.Prop[Case]{
	Property: property,
	Kind:     "c12-history",
	Gen: func(t *rapid.T) Case {
		var c Case
		c.Ranges = genMergeable(t)
		c.Seed = rapid.Uint64().Draw(t, "seed")
		return c
	},
	Check:    checkCase,
	Classify: classify,
	Render:   randomProp.Render,
}

func init() {
	vt.Register(randomProp)
	vt.Register(historyProp)
}

func TestHistory(t *testing.T) {
	historyProp.Run(t, vt.NewStats(property, "history"))
}

func TestRandom(t *testing.T) {
	randomProp.Run(t, vt.NewStats(property, "random"))
}

func TestReplay(t *testing.T) { vt.RunReplay(t) }
