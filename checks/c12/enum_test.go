package c12

import (
	"fmt"
	"testing"

	"seehuhn.de/go/pdf/verif/internal/cmapmodel"
	"seehuhn.de/go/pdf/verif/internal/vt"
)

// enumBounds is the boundary alphabet of the exhaustive slice.
var enumBounds = []byte{0x00, 0x7F, 0x80, 0xFF}

// enumRanges lists every range of length 1 or 2 whose per-byte bounds come
// from enumBounds (10 + 100 ranges).
func enumRanges() cmapmodel.Set {
	var ivs [][2]byte
	for i, lo := range enumBounds {
		for _, hi := range enumBounds[i:] {
			ivs = append(ivs, [2]byte{lo, hi})
		}
	}
	var out cmapmodel.Set
	for _, a := range ivs {
		out = append(out, cmapmodel.Range{Low: []byte{a[0]}, High: []byte{a[1]}})
	}
	for _, a := range ivs {
		for _, b := range ivs {
			out = append(out, cmapmodel.Range{Low: []byte{a[0], b[0]}, High: []byte{a[1], b[1]}})
		}
	}
	return out
}

// TestEnum runs the complete check on every set of at most two (quick) or
// three (thorough) ranges from enumRanges; the quick tier adds a seeded
// sample of the triples.
func TestEnum(t *testing.T) {
	st := vt.NewStats(property, "enum")
	all := enumRanges()
	n := len(all)
	failed := false
	evaluated := 0

	run := func(idx ...int) {
		var c Case
		for _, i := range idx {
			c.Ranges = append(c.Ranges, all[i])
		}
		err := vt.Guard(func() error { return checkCase(&c) })
		nt, cls := classify(&c)
		h := uint64(len(idx))
		for _, i := range idx {
			h = h*1000 + uint64(i)
		}
		st.Eval(h, nt, cls...)
		evaluated++
		if evaluated%4001 == 0 || (nt && evaluated%997 == 0) {
			st.Sample(func() any { return randomProp.Render(&c) })
		}
		if err != nil {
			vt.Violation(property, randomProp.Kind, &c, err.Error())
			t.Errorf("%v", err)
			failed = true
		}
	}

	maxSize := vt.Scale(2, 3)
	idx := 0
	mine := func() bool { idx++; return vt.Mine(idx) }
	if mine() {
		run() // the empty set
	}
	for i := 0; i < n && !failed; i++ {
		if mine() {
			run(i)
		}
		for j := i + 1; j < n && !failed; j++ {
			if mine() {
				run(i, j)
			}
			if maxSize < 3 {
				continue
			}
			for k := j + 1; k < n && !failed; k++ {
				if mine() {
					run(i, j, k)
				}
			}
		}
	}
	if failed {
		return
	}
	st.SetExhaustive(fmt.Sprintf("all sets of <= %d ranges of length 1-2 with per-byte bounds from {00,7F,80,FF} (%d ranges) x all strings of <= 4 bytes over the class representatives (first, last, middle of every class) incl. truncated codes",
		maxSize, n))

	if maxSize < 3 {
		// a seeded sample of the triples, beyond the exhaustive slice
		_, nshards := vt.Shard()
		want := 20000 / nshards
		rng := vt.NewRand(vt.Seed() ^ 0xC12)
		for s := 0; s < want && !failed; s++ {
			i, j, k := rng.Intn(n), rng.Intn(n), rng.Intn(n)
			if i == j || j == k || i == k {
				continue
			}
			if i > j {
				i, j = j, i
			}
			if j > k {
				j, k = k, j
			}
			if i > j {
				i, j = j, i
			}
			run(i, j, k)
		}
		st.Note("quick tier: sets of <= 2 ranges complete; triples sampled (20000 draws, seed-dependent)")
	}
}
