package c06

import (
	"fmt"
	"testing"

	fg "seehuhn.de/go/pdf/verif/internal/filtergen"
	"seehuhn.de/go/pdf/verif/internal/vt"
)

// TestEnumCCITT enumerates the CCITTFax parameter grid completely for small
// images: K in {-1,0,1,2,4} x EndOfLine x EncodedByteAlign x BlackIs1 x
// EndOfBlock x /Rows {absent, exact, larger} x Columns, with every sequence
// of up to 2 rows over all 2^c rows for c <= 4 columns, and every sequence of
// up to 2 (thorough: 3) rows over a palette of six rows for the wider ones.
func TestEnumCCITT(t *testing.T) {
	st := vt.NewStats(property, "enum-ccitt")
	maxPaletteRows := vt.Scale(2, 4)
	narrow := []int{1, 2, 3, 4}
	wide := []int{7, 8, 9, 16, 17, 63, 64, 65, 128, 130}

	// rows for a given width
	rowsFor := func(cols int) [][]byte {
		rb := (cols + 7) / 8
		if cols <= 4 {
			var out [][]byte
			for v := 0; v < 1<<cols; v++ {
				out = append(out, []byte{byte(v << (8 - cols))})
			}
			return out
		}
		mk := func(f func(x int) bool) []byte {
			row := make([]byte, rb)
			for x := 0; x < cols; x++ {
				if f(x) {
					row[x/8] |= 0x80 >> (x % 8)
				}
			}
			return row
		}
		return [][]byte{
			mk(func(int) bool { return false }),
			mk(func(int) bool { return true }),
			mk(func(x int) bool { return x%2 == 0 }),
			mk(func(x int) bool { return x >= cols/2 }),
			mk(func(x int) bool { return x == 3 }),
			mk(func(x int) bool { return x == cols-1 }),
		}
	}
	sequences := func(rows [][]byte, maxLen int) [][]byte {
		out := [][]byte{{}}
		prev := [][]byte{{}}
		for l := 1; l <= maxLen; l++ {
			var next [][]byte
			for _, p := range prev {
				for _, r := range rows {
					next = append(next, append(append([]byte{}, p...), r...))
				}
			}
			out = append(out, next...)
			prev = next
		}
		return out
	}

	type cell struct {
		k                    int
		eol, ba, bi1, ignore bool
		rowsMode             int
	}
	var cells []cell
	for _, k := range []int{-1, 0, 1, 2, 4} {
		for m := 0; m < 16; m++ {
			for rm := 0; rm < 3; rm++ {
				cells = append(cells, cell{k, m&1 != 0, m&2 != 0, m&4 != 0, m&8 != 0, rm})
			}
		}
	}

	var failed *Case
	var failMsg string
	count := 0
	for ci, cl := range cells {
		if !vt.Mine(ci) {
			continue
		}
		for _, cols := range append(append([]int{}, narrow...), wide...) {
			maxLen := 2
			if cols > 4 {
				maxLen = maxPaletteRows
			}
			rb := (cols + 7) / 8
			for _, data := range sequences(rowsFor(cols), maxLen) {
				nrows := len(data) / rb
				c := Case{
					Version: 7,
					Filter: fg.Spec{Kind: fg.CCITTFax, K: cl.k, EndOfLine: cl.eol, ByteAlign: cl.ba,
						BlackIs1: cl.bi1, IgnoreEOB: cl.ignore, Columns: cols},
					Data:  fg.Data{Class: "enum", N: nrows, Stored: true, Bytes: data},
					Chunk: fg.Chunking{Write: "single", ReadBuf: 4096},
				}
				switch cl.rowsMode {
				case 1:
					c.Filter.Rows = nrows
				case 2:
					c.Filter.Rows = nrows + 2
				}
				err := vt.Guard(func() error { return checkCase(&c) })
				count++
				cls := []string{c.Filter.Label()}
				if c.obs.rejected {
					cls = append(cls, "rejected")
				}
				st.Eval(vt.HashBytes([]byte(fmt.Sprint(ci, cols)), data), nrows >= 2, cls...)
				if count%5000 == 1 {
					st.Sample(func() any { return render(&c) })
				}
				if err != nil && failed == nil {
					cc := c
					failed, failMsg = &cc, err.Error()
				}
			}
		}
	}
	st.SetExhaustive(fmt.Sprintf("CCITTFax: K{-1,0,1,2,4} x EndOfLine x EncodedByteAlign x BlackIs1 x EndOfBlock x Rows{absent,exact,+2} "+
		"x (columns 1-4: all row sequences of length <= 2; columns %v: all sequences of length <= %d over 6 palette rows)", wide, maxPaletteRows))
	if failed != nil {
		vt.Violation(property, "c06-single", failed, failMsg)
		t.Fatalf("%s", failMsg)
	}
}
