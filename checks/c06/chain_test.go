package c06

import (
	"bytes"
	"errors"
	"fmt"
	"testing"

	"pgregory.net/rapid"
	"seehuhn.de/go/pdf"
	"seehuhn.de/go/pdf/internal/debug/memfile"
	fg "seehuhn.de/go/pdf/verif/internal/filtergen"
	"seehuhn.de/go/pdf/verif/internal/vt"
)

// ChainCase is a chain of filters applied through Writer.OpenStream.
//
// Filters are in OpenStream order: Filters[0] is the outermost one (the first
// entry of /Filter, the first one undone when reading); the caller's data
// goes into the last one, so only the last filter sees rows.
type ChainCase struct {
	Version int         `json:"version"`
	Human   bool        `json:"human_readable"`
	Filters []fg.Spec   `json:"filters"`
	Data    fg.Data     `json:"data"`
	Chunk   fg.Chunking `json:"chunk"`

	obs chainObs
}

type chainObs struct {
	rejected    bool
	outOfDomain bool
	dataLen     int
	parmsGap    bool // a filter without parameters in front of one with
	anyParms    bool
	fileLen     int
}

// shape returns the spec which determines the shape of the input.
func (c *ChainCase) shape() fg.Spec {
	if len(c.Filters) == 0 {
		return fg.Spec{Kind: fg.RunLength} // bytes
	}
	return c.Filters[len(c.Filters)-1]
}

// accepted reports whether the validation accepts every filter of the chain
// at version v (Info and Encode succeed), and the Info results.
func accepted(filters []fg.Spec, v pdf.Version) (bool, []pdf.Name, []pdf.Dict) {
	names := make([]pdf.Name, len(filters))
	parms := make([]pdf.Dict, len(filters))
	ok := true
	for i, s := range filters {
		f := s.Filter()
		n, p, err := f.Info(v)
		if err != nil {
			ok = false
			continue
		}
		if _, err := f.Encode(v, &fg.Sink{}); err != nil {
			ok = false
			continue
		}
		names[i], parms[i] = n, p
	}
	return ok, names, parms
}

// maxCCITTRows is limits.MaxImageHeight: FilterCCITTFax.Decode delivers at
// most this many rows (a documented resource bound).
const maxCCITTRows = 1 << 16

// tooManyRows reports whether some CCITTFax filter of the chain would be
// given more than maxCCITTRows rows.  The intermediate data is computed by
// running the (accepted) filters one by one.
func tooManyRows(filters []fg.Spec, v pdf.Version, data []byte) bool {
	cur := data
	for i := len(filters) - 1; i >= 0; i-- {
		s := filters[i]
		if s.Kind == fg.CCITTFax && len(cur)/max(s.RowBytes(), 1) > maxCCITTRows {
			return true
		}
		if i == 0 {
			break
		}
		hasOuterCCITT := false
		for _, o := range filters[:i] {
			hasOuterCCITT = hasOuterCCITT || o.Kind == fg.CCITTFax
		}
		if !hasOuterCCITT {
			break
		}
		enc, _, _, err := fg.Encode(s.Filter(), v, cur, fg.Chunking{Write: "single"})
		if err != nil {
			return false // the check proper will report it
		}
		cur = enc
	}
	return false
}

// filterEntries splits /Filter and /DecodeParms of a stream dictionary into
// per-filter lists, checking the structure 7.3.8.2 demands.
func filterEntries(d pdf.Dict) ([]pdf.Name, []pdf.Object, error) {
	var names []pdf.Name
	var parms []pdf.Object
	switch f := d["Filter"].(type) {
	case nil:
		if _, has := d["DecodeParms"]; has {
			return nil, nil, errors.New("/DecodeParms without /Filter")
		}
		return nil, nil, nil
	case pdf.Name:
		names = []pdf.Name{f}
		switch p := d["DecodeParms"].(type) {
		case nil:
			parms = []pdf.Object{nil}
		case pdf.Dict:
			parms = []pdf.Object{p}
		case pdf.Array:
			if len(p) != 1 {
				return nil, nil, fmt.Errorf("/Filter is a name but /DecodeParms has %d entries", len(p))
			}
			parms = []pdf.Object{p[0]}
		default:
			return nil, nil, fmt.Errorf("/DecodeParms is a %T", p)
		}
	case pdf.Array:
		for _, e := range f {
			n, ok := e.(pdf.Name)
			if !ok {
				return nil, nil, fmt.Errorf("/Filter contains a %T", e)
			}
			names = append(names, n)
		}
		switch p := d["DecodeParms"].(type) {
		case nil:
			parms = make([]pdf.Object, len(names))
		case pdf.Array:
			if len(p) != len(names) {
				return nil, nil, fmt.Errorf("/Filter has %d entries, /DecodeParms has %d", len(names), len(p))
			}
			parms = []pdf.Object(p)
		case pdf.Dict:
			if len(names) != 1 {
				return nil, nil, fmt.Errorf("/Filter has %d entries, /DecodeParms is a single dictionary", len(names))
			}
			parms = []pdf.Object{p}
		default:
			return nil, nil, fmt.Errorf("/DecodeParms is a %T", p)
		}
	default:
		return nil, nil, fmt.Errorf("/Filter is a %T", f)
	}
	return names, parms, nil
}

func checkChain(c *ChainCase) error {
	c.obs = chainObs{}
	if c.Version < 0 || c.Version >= len(fg.Versions) || len(c.Filters) > 3 {
		return fmt.Errorf("bad case")
	}
	v := fg.Versions[c.Version]
	shape := c.shape()
	data := c.Data.Get(shape)
	c.obs.dataLen = len(data)

	ok, wantNames, wantParms := accepted(c.Filters, v)
	seenEmpty := false
	for _, p := range wantParms {
		if len(p) == 0 {
			seenEmpty = true
		} else {
			c.obs.anyParms = true
			if seenEmpty {
				c.obs.parmsGap = true
			}
		}
	}

	if ok && tooManyRows(c.Filters, v, data) {
		// The CCITTFax decoder deliberately stops after limits.MaxImageHeight
		// (2^16) rows; an outer CCITTFax filter with 8 columns sees one row
		// per byte of the inner filters' output.  Such input is outside the
		// documented limits of the library: counted, not asserted.
		c.obs.outOfDomain = true
		return nil
	}

	buf := &bytes.Buffer{}
	w, err := pdf.NewWriter(buf, v, &pdf.WriterOptions{HumanReadable: c.Human})
	if err != nil {
		return fmt.Errorf("NewWriter failed: %v", err)
	}
	if err := memfile.AddBlankPage(w); err != nil {
		return fmt.Errorf("cannot add the page tree: %v", err)
	}
	filters := make([]pdf.Filter, len(c.Filters))
	for i, s := range c.Filters {
		filters[i] = s.Filter()
	}
	ref := w.Alloc()
	body, err := w.OpenStream(ref, pdf.Dict{"Type": pdf.Name("XVerif")}, filters...)
	if err != nil {
		if ok {
			return fmt.Errorf("OpenStream rejects a chain whose filters are all accepted on their own: %v", err)
		}
		c.obs.rejected = true
		return nil // rejected by the writer: counted, outside the quantifier
	}
	if !ok {
		return fmt.Errorf("OpenStream accepts a chain containing a filter which Info/Encode reject at version %v", v)
	}
	if err := c.Chunk.WriteAll(body, data); err != nil {
		return fmt.Errorf("writing admissible input failed: %v", err)
	}
	if err := body.Close(); err != nil {
		return fmt.Errorf("closing the stream failed: %v", err)
	}
	if err := w.Close(); err != nil {
		return fmt.Errorf("closing the writer failed: %v", err)
	}
	file := buf.Bytes()
	c.obs.fileLen = len(file)

	r, err := pdf.NewReader(bytes.NewReader(file), int64(len(file)), &pdf.ReaderOptions{ErrorHandling: pdf.ErrorHandlingStop})
	if err != nil {
		return fmt.Errorf("NewReader on the written file failed: %v", err)
	}
	obj, err := r.Get(ref, false)
	if err != nil {
		return fmt.Errorf("Get(%v) failed: %v", ref, err)
	}
	stm, isStream := obj.(*pdf.Stream)
	if !isStream {
		return fmt.Errorf("object %v reads back as %T", ref, obj)
	}

	// /Filter and /DecodeParms: aligned, and exactly what each Info returned
	names, parms, err := filterEntries(stm.Dict)
	if err != nil {
		return fmt.Errorf("stream dictionary %s: %v", pdf.AsString(stm.Dict), err)
	}
	if len(names) != len(c.Filters) {
		return fmt.Errorf("stream dictionary %s names %d filters, want %d", pdf.AsString(stm.Dict), len(names), len(c.Filters))
	}
	for i := range names {
		if names[i] != wantNames[i] {
			return fmt.Errorf("/Filter entry %d is %q, want %q (dictionary %s)", i, names[i], wantNames[i], pdf.AsString(stm.Dict))
		}
		var want pdf.Object
		if len(wantParms[i]) > 0 {
			want = wantParms[i]
		}
		got := parms[i]
		if d, isDict := got.(pdf.Dict); isDict && len(d) == 0 {
			got = nil // an empty dictionary says the same as null
		}
		if err := vt.EqObj(want, got); err != nil {
			return fmt.Errorf("/DecodeParms entry %d (for %q) is not what Info returned: %v (dictionary %s)",
				i, names[i], err, pdf.AsString(stm.Dict))
		}
	}

	// the filters rebuilt from the dictionary have the effective parameters
	got, err := pdf.GetFilters(r, nil, stm.Dict)
	if err != nil {
		return fmt.Errorf("GetFilters failed: %v", err)
	}
	if len(got) != len(c.Filters) {
		return fmt.Errorf("GetFilters returned %d filters, want %d", len(got), len(c.Filters))
	}
	for i, f2 := range got {
		s2, err := fg.FromFilter(f2)
		if err != nil {
			return fmt.Errorf("filter %d: %v", i, err)
		}
		if want, have := c.Filters[i].Effective(v), s2.Effective(v); want != have {
			return fmt.Errorf("filter %d: wrote %+v, read %+v (dictionary %s)", i, want, have, pdf.AsString(stm.Dict))
		}
	}

	// data
	rd, err := pdf.DecodeStream(r, nil, stm)
	if err != nil {
		return fmt.Errorf("DecodeStream failed: %v (dictionary %s)", err, pdf.AsString(stm.Dict))
	}
	dec, err := c.Chunk.ReadAll(rd)
	if err != nil {
		rd.Close()
		return fmt.Errorf("reading the decoded stream failed after %d of %d bytes: %v (dictionary %s)",
			len(dec), len(data), err, pdf.AsString(stm.Dict))
	}
	if err := rd.Close(); err != nil {
		return fmt.Errorf("closing the decoded stream failed: %v", err)
	}
	want := append([]byte{}, data...)
	shape.Mask(want)
	shape.Mask(dec)
	if !bytes.Equal(want, dec) {
		return fmt.Errorf("chain %s: data read back differs: %s", pdf.AsString(stm.Dict), firstDiff(want, dec))
	}
	return nil
}

func classifyChain(c *ChainCase) (bool, []string) {
	cls := []string{fmt.Sprintf("chain-len-%d", len(c.Filters))}
	if c.obs.rejected {
		return false, append(cls, "rejected")
	}
	if c.obs.outOfDomain {
		return false, append(cls, "out-of-domain/ccitt-rows>65536")
	}
	cls = append(cls, "accepted", "data/"+c.Data.Class, c.Chunk.Label(), fmt.Sprintf("version-%d", c.Version))
	for i, s := range c.Filters {
		cls = append(cls, fmt.Sprintf("pos%d/%s", i, s.Kind))
	}
	if c.obs.parmsGap {
		cls = append(cls, "parms-after-filter-without-parms")
	}
	if c.obs.anyParms {
		cls = append(cls, "has-DecodeParms")
	} else if len(c.Filters) > 0 {
		cls = append(cls, "no-DecodeParms")
	}
	if c.Human {
		cls = append(cls, "human-readable")
	}
	if c.obs.fileLen > 0 && c.obs.dataLen < 1024 {
		cls = append(cls, "short-stream")
	}
	shape := c.shape()
	rows := c.obs.dataLen / max(shape.RowBytes(), 1)
	big := c.obs.dataLen >= 300 || (shape.RowBased() && rows >= 2)
	return big && len(c.Filters) >= 1, cls
}

func genChain(t *rapid.T) ChainCase {
	var c ChainCase
	c.Version = fg.Uniform(t, "version", 0, len(fg.Versions)-1)
	c.Human = rapid.Bool().Draw(t, "human")
	n := []int{0, 1, 1, 2, 2, 2, 2, 3, 3, 3, 3}[fg.Uniform(t, "chain_len", 0, 10)]
	for i := 0; i < n; i++ {
		o := fg.SpecOptions{OneByteRows: i < n-1}
		// a chain is rejected as soon as one member is: keep most members valid
		o.ValidOnly = !fg.Chance(t, "allow_invalid", 10)
		c.Filters = append(c.Filters, fg.GenSpec(t, o))
	}
	shape := c.shape()
	c.Data = fg.GenData(t, &shape)
	if n > 0 {
		c.Filters[n-1] = shape // GenData fills in /Rows
	}
	c.Chunk = fg.GenChunking(t)
	c.Chunk.Source = "" // the source is the file here
	return c
}

var chainProp = &vt.Prop[ChainCase]{
	Property: property,
	Kind:     "c06-chain",
	Gen:      genChain,
	Check:    checkChain,
	Classify: classifyChain,
	Render: func(c *ChainCase) any {
		return map[string]any{"version": c.Version, "filters": c.Filters, "data_class": c.Data.Class,
			"bytes": c.obs.dataLen, "file": c.obs.fileLen, "chunk": c.Chunk, "rejected": c.obs.rejected}
	},
}

func init() { vt.Register(chainProp) }

func TestChain(t *testing.T) {
	chainProp.Run(t, vt.NewStats(property, "chain"))
}
