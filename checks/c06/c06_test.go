// Package c06 checks property C06: stream filters round-trip,
// decode(encode(x)) = x for every accepted parameter set, version and
// chunking, and Info -> dictionary -> MakeFilter reproduces the effective
// parameters; the same through chains applied by Writer.OpenStream.
package c06

import (
	"bytes"
	"encoding/json"
	"errors"
	"fmt"
	"os"
	"path/filepath"
	"sync"
	"testing"

	"pgregory.net/rapid"
	"seehuhn.de/go/pdf"
	fg "seehuhn.de/go/pdf/verif/internal/filtergen"
	"seehuhn.de/go/pdf/verif/internal/indep/codecs"
	"seehuhn.de/go/pdf/verif/internal/vt"
)

func TestMain(m *testing.M) { vt.Main(m) }

func TestReplay(t *testing.T) { vt.RunReplay(t) }

const property = "C06"

// ---------------------------------------------------------------------------
// known findings
//
// Every failure this check found on the pinned tree has a small repair
// (pending/C06-*.patch, witnesses in replays/C06/), so no region is excluded.
// Should a finding be recorded later: a finding counts as open if
// vt.FindingOpen(id) says so or if pending/C06-known-findings.json lists it
// (see findingOpen), the generator must then avoid the region by construction
// and report it through Prop.Excluded.

var (
	pendingOnce sync.Once
	pendingOpen map[string]bool
)

func findingOpen(id string) bool {
	if vt.FindingOpen(id) {
		return true
	}
	if os.Getenv("VERIF_IGNORE_FINDINGS") != "" {
		return false
	}
	pendingOnce.Do(func() {
		pendingOpen = map[string]bool{}
		b, err := os.ReadFile(filepath.Join(vt.Root(), "pending", "C06-known-findings.json"))
		if err != nil {
			return
		}
		var doc struct {
			Findings []struct {
				ID     string `json:"id"`
				Status string `json:"status"`
			} `json:"findings"`
		}
		if json.Unmarshal(b, &doc) != nil {
			return
		}
		for _, f := range doc.Findings {
			if f.Status == "open" {
				pendingOpen[f.ID] = true
			}
		}
	})
	return pendingOpen[id]
}

// ---------------------------------------------------------------------------
// single filter

// Case is one filter with parameters, a version, input data and a chunking.
type Case struct {
	Version int         `json:"version"` // index into filtergen.Versions
	Filter  fg.Spec     `json:"filter"`
	Data    fg.Data     `json:"data"`
	Chunk   fg.Chunking `json:"chunk"`

	// observations of Check, for Classify
	obs observation
}

type observation struct {
	rejected bool
	dataLen  int
	encLen   int
	lzw      *codecs.LZWStats
	pngTags  []int
}

func clip(b []byte) string {
	if len(b) > 48 {
		return fmt.Sprintf("%x...(%d bytes)", b[:48], len(b))
	}
	return fmt.Sprintf("%x", b)
}

// firstDiff describes where two byte strings differ.
func firstDiff(want, got []byte) string {
	n := min(len(want), len(got))
	i := 0
	for i < n && want[i] == got[i] {
		i++
	}
	lo := max(0, i-4)
	return fmt.Sprintf("lengths want %d got %d, first difference at byte %d: want ..%s got ..%s",
		len(want), len(got), i, clip(want[lo:min(len(want), lo+24)]), clip(got[lo:min(len(got), lo+24)]))
}

// throughSyntax formats the parameter dictionary and parses it again: the
// dictionary must survive the file syntax, too.
func throughSyntax(parms pdf.Dict) (pdf.Dict, error) {
	if parms == nil {
		return nil, nil // no /DecodeParms entry is written
	}
	var buf bytes.Buffer
	if err := pdf.Format(&buf, 0, parms); err != nil {
		return nil, fmt.Errorf("Format of the parameter dictionary failed: %v", err)
	}
	objs, err := pdf.VerifParseObjects(buf.Bytes())
	if err != nil || len(objs) != 1 {
		return nil, fmt.Errorf("parameter dictionary %q does not parse as one object: %v", buf.Bytes(), err)
	}
	d, ok := objs[0].(pdf.Dict)
	if !ok {
		return nil, fmt.Errorf("parameter dictionary %q parses as %T", buf.Bytes(), objs[0])
	}
	return d, nil
}

func checkCase(c *Case) error {
	c.obs = observation{}
	if c.Version < 0 || c.Version >= len(fg.Versions) {
		return fmt.Errorf("bad case: version index %d", c.Version)
	}
	v := fg.Versions[c.Version]
	spec := c.Filter
	data := c.Data.Get(spec)
	c.obs.dataLen = len(data)
	f := spec.Filter()

	enc, name, parms, err := fg.Encode(f, v, data, c.Chunk)
	var rej *fg.ErrRejected
	if errors.As(err, &rej) {
		c.obs.rejected = true
		return nil // not accepted by the validation: outside the quantifier
	}
	if err != nil {
		return fmt.Errorf("encoding admissible input failed: %v", err)
	}
	c.obs.encLen = len(enc)

	// Info -> dictionary -> file syntax -> MakeFilter
	if want := spec.PDFName(v); name != want {
		return fmt.Errorf("Info returned the name %q, want %q", name, want)
	}
	parsed, err := throughSyntax(parms)
	if err != nil {
		return err
	}
	f2, err := pdf.MakeFilter(name, parsed)
	if err != nil {
		return fmt.Errorf("MakeFilter(%q, %s) failed: %v", name, pdf.AsString(parsed), err)
	}
	spec2, err := fg.FromFilter(f2)
	if err != nil {
		return fmt.Errorf("MakeFilter(%q, %s): %v", name, pdf.AsString(parsed), err)
	}
	if want, got := spec.Effective(v), spec2.Effective(v); want != got {
		return fmt.Errorf("Info -> MakeFilter does not reproduce the effective parameters: wrote %+v as %q %s, read %+v",
			want, name, pdf.AsString(parms), got)
	}

	// data round trip through the rebuilt filter
	dec, err := fg.Decode(f2, v, enc, c.Chunk)
	if err != nil {
		return fmt.Errorf("reading back %d bytes (encoded: %s): %v", len(data), clip(enc), err)
	}
	want := append([]byte{}, data...)
	spec.Mask(want)
	spec.Mask(dec)
	if !bytes.Equal(want, dec) {
		return fmt.Errorf("decode(encode(x)) != x: %s (encoded: %s)", firstDiff(want, dec), clip(enc))
	}

	// what did the case exercise? (evidence only)
	eff := spec.Effective(v)
	if eff.Kind == fg.LZW {
		if _, st, err := codecs.LZWDecode(enc, eff.OffByOne); err == nil {
			c.obs.lzw = &st
		}
	}
	if eff.Kind == fg.Flate && eff.Predictor == 15 && len(data) > 0 {
		if raw, err := codecs.ZlibDecode(enc); err == nil {
			tags := make([]int, 5)
			l := codecs.Layout{Colors: eff.Colors, BPC: eff.BPC, Columns: eff.Columns}
			if _, err := codecs.PNGPredictDecode(raw, l, tags); err == nil {
				c.obs.pngTags = tags
			}
		}
	}
	return nil
}

// defaultParams reports whether the effective parameters are the PDF
// defaults of the filter.
func defaultParams(e fg.Spec) bool {
	switch e.Kind {
	case fg.Flate:
		return e == fg.Spec{Kind: fg.Flate, Predictor: 1}
	case fg.LZW:
		return e == fg.Spec{Kind: fg.LZW, Predictor: 1, OffByOne: true}
	case fg.CCITTFax:
		return e == fg.Spec{Kind: fg.CCITTFax, Columns: 1728}
	}
	return true
}

func ccittClasses(s fg.Spec, nrows int) []string {
	cls := []string{}
	add := func(cond bool, name string) {
		if cond {
			cls = append(cls, "ccitt/"+name)
		}
	}
	add(s.EndOfLine, "EndOfLine")
	add(s.ByteAlign, "EncodedByteAlign")
	add(s.BlackIs1, "BlackIs1")
	add(s.IgnoreEOB, "EndOfBlock=false")
	add(s.Rows == 0, "rows-unknown")
	add(s.Rows > 0 && s.Rows == nrows, "rows-exact")
	add(s.Rows > nrows, "rows-larger")
	add(s.RowBits()%8 != 0, "columns-not-multiple-of-8")
	add(s.RowBits() >= 2560, "columns>=2560")
	add(s.Damaged > 0, "DamagedRowsBeforeError")
	add(nrows == 0, "zero-rows")
	add(nrows >= 1200 && s.RowBits() >= 1000, "page-sized")
	add(nrows >= 1200 && s.RowBits() >= 1000 && s.K == 0, "page-sized-K=0")
	add(nrows >= 1200 && s.RowBits() >= 1000 && s.K != 0, "page-sized-K!=0")
	return cls
}

func classify(c *Case) (bool, []string) {
	v := fg.Versions[c.Version]
	spec := c.Filter
	cls := []string{}
	if c.obs.rejected {
		return false, []string{"rejected", "rejected/" + spec.Kind}
	}
	cls = append(cls, "accepted", spec.Label(), "data/"+c.Data.Class, c.Chunk.Label())
	if c.Chunk.Source != "" {
		cls = append(cls, "source-"+c.Chunk.Source)
	}
	if v < pdf.V1_2 {
		cls = append(cls, "version<1.2")
	}
	rows := c.obs.dataLen
	if spec.RowBased() {
		rows = c.obs.dataLen / max(spec.RowBytes(), 1)
		if rows >= 2 {
			cls = append(cls, "rows>=2")
		}
	}
	if c.obs.dataLen == 0 {
		cls = append(cls, "empty-input")
	}
	eff := spec.Effective(v)
	if spec.HasPredictor() {
		cls = append(cls, fmt.Sprintf("bpc-%d", eff.BPC))
		if eff.Colors > 5 {
			cls = append(cls, "colors>5")
		}
		if eff.Columns > 70 {
			cls = append(cls, "columns>70")
		}
	}
	if spec != eff && spec.Kind != fg.Compress {
		cls = append(cls, "zero-value-shorthand")
	}
	if spec.Kind == fg.CCITTFax {
		cls = append(cls, ccittClasses(spec, rows)...)
	}
	if st := c.obs.lzw; st != nil {
		for w := 9; w <= 12; w++ {
			if st.Widths[w] > 0 {
				cls = append(cls, fmt.Sprintf("lzw-width-%d", w))
			}
		}
		if st.Clears > 0 {
			cls = append(cls, "lzw-table-reset")
		}
		// the longest table string, by the reference decoder's table
		for _, l := range []int{256, 1024, 2048, 3072} {
			if st.MaxString >= l {
				cls = append(cls, fmt.Sprintf("lzw/dict-string>=%d", l))
			}
		}
		if c.obs.dataLen >= 4<<20 && (c.Data.Class == fg.ClassConst || c.Data.Class == fg.ClassLongRuns || c.Data.Class == fg.ClassBlankPage) {
			cls = append(cls, "lzw/repetitive>=4MiB")
		}
	}
	for ft, n := range c.obs.pngTags {
		if n > 0 {
			cls = append(cls, fmt.Sprintf("optimum-chose-filter-%d", ft))
		}
	}
	big := c.obs.dataLen >= 300 || (spec.RowBased() && rows >= 2)
	nt := big && (!defaultParams(eff) || !c.Chunk.Trivial())
	return nt, cls
}

func genCase(t *rapid.T) Case {
	var c Case
	c.Version = fg.Uniform(t, "version", 0, len(fg.Versions)-1)
	c.Filter = fg.GenSpec(t, fg.SpecOptions{})
	c.Data = fg.GenData(t, &c.Filter)
	c.Chunk = fg.GenChunking(t)
	return c
}

func render(c *Case) any {
	return map[string]any{"version": c.Version, "filter": c.Filter, "data_class": c.Data.Class, "n": c.Data.N,
		"bytes": c.obs.dataLen, "encoded": c.obs.encLen, "chunk": c.Chunk, "rejected": c.obs.rejected}
}

var singleProp = &vt.Prop[Case]{
	Property: property,
	Kind:     "c06-single",
	Gen:      genCase,
	Check:    checkCase,
	Classify: classify,
	Render:   render,
}

func init() { vt.Register(singleProp) }

func TestRandom(t *testing.T) {
	singleProp.Run(t, vt.NewStats(property, "random"))
}
