package c06

import (
	"fmt"
	"testing"

	"pgregory.net/rapid"
	fg "seehuhn.de/go/pdf/verif/internal/filtergen"
	"seehuhn.de/go/pdf/verif/internal/vt"
)

// PageCase is a CCITTFax image of the size of an ordinary fax page
// (filtergen.GenPage): 1216-2591 columns x 1200-2400 rows, K in {0, 4, -1}.
// The cases of the random job are bounded to 96 KiB of input and never reach
// the number of rows at which a wrong bound on the decoded output shows (the
// documented bounds, limits.MaxImagePixels = 128 Mpx and 2^16 rows, are far
// above a page).  The oracle is the one of the other jobs: the single-filter
// round trip through Info -> MakeFilter, and (File) the same filter applied
// by Writer.OpenStream and read back with DecodeStream.
type PageCase struct {
	Case
	File bool `json:"through_file"`
}

func checkPage(c *PageCase) error {
	if err := checkCase(&c.Case); err != nil {
		return err
	}
	if !c.File || c.obs.rejected {
		return nil
	}
	cc := ChainCase{Version: c.Version, Filters: []fg.Spec{c.Filter}, Data: c.Data, Chunk: c.Chunk}
	cc.Chunk.Source = ""
	if err := checkChain(&cc); err != nil {
		return fmt.Errorf("through Writer.OpenStream / DecodeStream: %v", err)
	}
	if cc.obs.rejected || cc.obs.outOfDomain {
		return fmt.Errorf("bad case: a page-sized image was not asserted (rejected=%v, out of domain=%v)", cc.obs.rejected, cc.obs.outOfDomain)
	}
	return nil
}

func genPage(t *rapid.T) PageCase {
	var c PageCase
	c.Version = fg.Uniform(t, "version", 0, len(fg.Versions)-1)
	c.Filter, c.Data = fg.GenPage(t)
	c.Chunk = fg.GenChunking(t)
	c.File = rapid.Bool().Draw(t, "through_file")
	return c
}

var pageProp = &vt.Prop[PageCase]{
	Property: property,
	Kind:     "c06-page",
	Gen:      genPage,
	Check:    checkPage,
	Classify: func(c *PageCase) (bool, []string) {
		nt, cls := classify(&c.Case)
		if c.File {
			cls = append(cls, "through-file")
		}
		return nt || !c.obs.rejected, cls
	},
	Render: func(c *PageCase) any { return render(&c.Case) },
}

func init() { vt.Register(pageProp) }

func TestPages(t *testing.T) {
	pageProp.Run(t, vt.NewStats(property, "pages"))
}
