package c06

import (
	"fmt"
	"testing"

	fg "seehuhn.de/go/pdf/verif/internal/filtergen"
	"seehuhn.de/go/pdf/verif/internal/vt"
)

// TestBulk runs a few multi-megabyte, highly repetitive inputs (the samples
// of a blank page image) through LZW with both EarlyChange settings, through
// FilterCompress before PDF 1.2, with and without predictors, and through
// Flate and RunLength as controls.  On such data the strings of the LZW table
// grow by one byte per code, up to the maximum of 3838 bytes after 7.3 MB of
// one byte value; the cases of the other jobs (at most 96 KiB) never build
// strings longer than a few hundred bytes, so a decoder whose buffer handling
// fails for long strings is invisible to them.
//
// The cases are enumerated (settings x shapes); sizes (4-8 MiB) and content
// seeds derive from the process seed.  Oracle: the one of the other jobs
// (checkPage: single filter through Info -> MakeFilter, every second case also
// through Writer.OpenStream / DecodeStream).  Cases hold shape + seed.
func TestBulk(t *testing.T) {
	st := vt.NewStats(property, "bulk")
	rnd := vt.NewRand(vt.Seed() ^ 0xB01C)
	rounds := vt.Scale(1, 3)

	type setting struct {
		spec    fg.Spec
		version int
		shapes  []string
	}
	plain := []string{fg.ClassConst, fg.ClassLongRuns}
	page := []string{fg.ClassBlankPage}
	// a 1728-pixel row at 1 bit per sample
	pred := func(kind string, p int, early bool) fg.Spec {
		return fg.Spec{Kind: kind, Predictor: p, Colors: 1, BPC: 1, Columns: 1728, OffByOne: early}
	}
	settings := []setting{
		{fg.Spec{Kind: fg.LZW}, 7, plain},
		{fg.Spec{Kind: fg.LZW, OffByOne: true}, 4, plain},
		{fg.Spec{Kind: fg.Compress}, 0, plain},
		{fg.Spec{Kind: fg.Compress}, 1, plain},
		{fg.Spec{Kind: fg.Flate}, 7, plain},
		{fg.Spec{Kind: fg.Compress}, 8, plain},
		{fg.Spec{Kind: fg.RunLength}, 7, plain},
		{fg.Spec{Kind: fg.LZW, OffByOne: true}, 7, page}, // no predictor: the page is nearly constant
		{pred(fg.LZW, 12, true), 7, page},
		{pred(fg.LZW, 2, false), 7, page},
		{pred(fg.Flate, 15, false), 7, page},
		{pred(fg.Compress, 11, false), 1, page},
	}
	chunks := []fg.Chunking{
		{Write: "single", ReadBuf: 4096},
		{Write: "splits", Splits: []int{700, 0, 65536, 3}, ReadBuf: 7},
		{Write: "single", ReadBuf: 1, Source: "splits", Splits: []int{1, 4096, 17}},
		{Write: "splits", Splits: []int{1 << 20}, ReadBuf: 4096, Source: "one"},
	}

	var failed *PageCase
	var failMsg string
	item := 0
	for round := 0; round < rounds; round++ {
		for _, set := range settings {
			for _, shape := range set.shapes {
				item++
				bytes := 4<<20 + rnd.Intn(4<<20+1) // 4-8 MiB
				seed := rnd.Uint64()
				if !vt.Mine(item) {
					continue
				}
				c := PageCase{File: item%2 == 0}
				c.Version = set.version
				c.Filter = set.spec
				c.Data = fg.Data{Class: shape, N: bytes / max(set.spec.RowBytes(), 1), Seed: seed}
				c.Chunk = chunks[item%len(chunks)]
				err := vt.Guard(func() error { return checkPage(&c) })
				nt, cls := classify(&c.Case)
				if c.File {
					cls = append(cls, "through-file")
				}
				st.Eval(vt.Hash(&c), nt || !c.obs.rejected, cls...)
				st.Sample(func() any { return render(&c.Case) })
				if err != nil && failed == nil {
					cc := c
					failed, failMsg = &cc, err.Error()
				}
			}
		}
	}
	st.Note("%d bulk cases of 4-8 MiB per process", item)
	if failed != nil {
		vt.Violation(property, "c06-page", failed, failMsg)
		t.Fatalf("%s", fmt.Sprint(failMsg))
	}
}
