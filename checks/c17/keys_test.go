package c17

import (
	"bytes"
	"math"
	"sort"
	"strconv"
	"unicode/utf8"

	"seehuhn.de/go/pdf"

	"seehuhn.de/go/pdf/verif/internal/gen"
	"seehuhn.de/go/pdf/verif/internal/vt"
)

// ---------------------------------------------------------------------------
// name keys

// Name key styles:
//
//	0  short random strings over all 256 byte values (length 0-6): the empty
//	   name, many keys which are prefixes of each other
//	1  one family: a common prefix followed by the shortest byte strings in
//	   length-then-value order ("", 00, 01, .. ff, 00 00, ..) with small
//	   random gaps: keys differing only in the last byte, keys with no other
//	   string between them (k and k+00)
//	2  non-ASCII: UTF-8 sequences from several blocks and raw high bytes
//	3  ASCII: decimal numbers without padding, optionally behind "key"/"Key"
//	   (lexical order differs from numeric order and from case-folded order)
//	4  a mixture of all of them
const nameStyles = 5

func suffixFor(c int) []byte {
	// 0 -> "", 1..256 -> one byte, 257.. -> two bytes, ...
	if c == 0 {
		return nil
	}
	c--
	length, span := 1, 256
	for c >= span {
		c -= span
		length++
		span *= 256
	}
	out := make([]byte, length)
	for i := length - 1; i >= 0; i-- {
		out[i] = byte(c)
		c >>= 8
	}
	return out
}

var runeBlocks = [][2]rune{{0x80, 0xff}, {0x370, 0x3ff}, {0x4e00, 0x4e80}, {0x1f600, 0x1f640}, {0x7f0, 0x810}, {0xfff0, 0x1000f}}

func expandNames(n, style int, seed uint64, extra []gen.Hex) [][]byte {
	rnd := vt.NewRand(seed)
	set := make(map[string]bool, n)
	var keys [][]byte
	add := func(k []byte) {
		if len(keys) < n && !set[string(k)] {
			set[string(k)] = true
			keys = append(keys, append([]byte{}, k...))
		}
	}
	for _, k := range extra {
		add(k)
	}
	prefix := rnd.Bytes(rnd.Intn(12))
	counter := 0
	style = ((style % nameStyles) + nameStyles) % nameStyles
	one := func(s int) []byte {
		switch s {
		case 0:
			return rnd.Bytes(rnd.Intn(7))
		case 1:
			k := append(append([]byte{}, prefix...), suffixFor(counter)...)
			counter++
			if rnd.Intn(4) == 0 {
				counter += rnd.Intn(5)
			}
			return k
		case 2:
			var k []byte
			for m := 1 + rnd.Intn(4); m > 0; m-- {
				if rnd.Intn(5) == 0 {
					k = append(k, byte(0x80+rnd.Intn(0x80)))
					continue
				}
				b := runeBlocks[rnd.Intn(len(runeBlocks))]
				r := b[0] + rune(rnd.Intn(int(b[1]-b[0])))
				if !utf8.ValidRune(r) {
					r = 0xfffd
				}
				k = utf8.AppendRune(k, r)
			}
			return k
		default:
			num := strconv.Itoa(rnd.Intn(4*n + 10))
			switch rnd.Intn(4) {
			case 0:
				return []byte("key" + num)
			case 1:
				return []byte("Key" + num)
			}
			return []byte(num)
		}
	}
	for tries := 0; len(keys) < n && tries < 40*n+1000; tries++ {
		s := style
		if style == 4 {
			s = rnd.Intn(4)
		}
		add(one(s))
	}
	// top up from the family if a small key space ran dry
	for len(keys) < n {
		add(one(1))
	}
	sortBytes(keys)
	return keys
}

// nameGap proposes keys strictly between keys[i] and keys[j] (j = i+1);
// i == -1 means below the minimum, j == len(keys) above the maximum.  The
// caller filters the proposals with the model's order.
func nameGap(keys []pdf.Name, i, j int) []pdf.Name {
	var out []pdf.Name
	put := func(parts ...[]byte) {
		out = append(out, pdf.Name(bytes.Join(parts, nil)))
	}
	if i >= 0 {
		a := []byte(keys[i])
		put(a, []byte{0})    // the immediate successor of a
		put(a, []byte{0xff}) // a longer key sharing the prefix a
		put(a, []byte{0, 0})
	}
	if j < len(keys) {
		b := []byte(keys[j])
		if len(b) > 0 {
			put(b[:len(b)-1]) // the longest proper prefix of b
			if last := b[len(b)-1]; last > 0 {
				put(b[:len(b)-1], []byte{last - 1})
				put(b[:len(b)-1], []byte{last - 1, 0xff, 0xff})
			}
		}
		if i < 0 {
			put() // the empty name sorts before everything else
		}
	}
	if j >= len(keys) {
		if i < 0 {
			put()
			put([]byte("absent"))
			put([]byte{0xff})
		} else {
			put(bytes.Repeat([]byte{0xff}, len(keys[i])+1))
		}
	}
	return out
}

func noteNameClasses(c *Case, keys [][]byte) {
	f := c.obs.flags
	for i, k := range keys {
		if len(k) == 0 {
			f["empty-name-key"] = true
		}
		for _, b := range k {
			if b >= 0x80 {
				f["non-ascii-key"] = true
				break
			}
		}
		if bytes.IndexByte(k, 0) >= 0 {
			f["nul-in-key"] = true
		}
		if i > 0 {
			p := keys[i-1]
			if bytes.HasPrefix(k, p) {
				f["prefix-neighbours"] = true
				if len(k) == len(p)+1 && k[len(p)] == 0 {
					f["adjacent-keys"] = true
				}
			}
			if len(p) == len(k) && len(k) > 0 && bytes.Equal(p[:len(p)-1], k[:len(k)-1]) {
				f["last-byte-differs"] = true
			}
		}
	}
}

// ---------------------------------------------------------------------------
// integer keys

// Integer key styles:
//
//	0  uniform over int64
//	1  consecutive runs (length 1-100) separated by gaps, starting at 0, at a
//	   negative number, at MinInt64, shortly before MaxInt64 or anywhere
//	2  dense around 0 (negative and positive)
//	3  near the extremes: MinInt64+k, MaxInt64-k, +-k
//	4  a mixture
const numStyles = 5

func expandNums(n, style int, seed uint64, extra []int64) []int64 {
	rnd := vt.NewRand(seed)
	set := make(map[int64]bool, n)
	var keys []int64
	add := func(k int64) {
		if len(keys) < n && !set[k] {
			set[k] = true
			keys = append(keys, k)
		}
	}
	for _, k := range extra {
		add(k)
	}
	style = ((style % numStyles) + numStyles) % numStyles

	var cur int64
	runLeft := 0
	newRun := func() {
		switch rnd.Intn(6) {
		case 0:
			cur = 0
		case 1:
			cur = -int64(rnd.Intn(2*n + 10))
		case 2:
			cur = math.MinInt64
		case 3:
			cur = math.MaxInt64 - int64(rnd.Intn(n+10))
		default:
			cur = int64(rnd.Uint64())
		}
		runLeft = 1 + rnd.Intn(100)
	}
	newRun()
	one := func(s int) int64 {
		switch s {
		case 0:
			return int64(rnd.Uint64())
		case 1:
			k := cur
			runLeft--
			step := int64(1)
			if runLeft <= 0 {
				step = int64(2 + rnd.Intn(1000))
				runLeft = 1 + rnd.Intn(100)
			}
			if cur > math.MaxInt64-step {
				newRun()
			} else {
				cur += step
			}
			return k
		case 2:
			return int64(rnd.Intn(4*n+4)) - int64(2*n+2)
		default:
			k := int64(rnd.Intn(2*n + 2))
			switch rnd.Intn(4) {
			case 0:
				return math.MinInt64 + k
			case 1:
				return math.MaxInt64 - k
			case 2:
				return -k
			}
			return k
		}
	}
	for tries := 0; len(keys) < n && tries < 40*n+1000; tries++ {
		s := style
		if style == 4 {
			s = rnd.Intn(4)
		}
		add(one(s))
	}
	for len(keys) < n {
		add(int64(rnd.Uint64()))
	}
	sort.Slice(keys, func(i, j int) bool { return keys[i] < keys[j] })
	return keys
}

// expandNumsSigned draws n distinct integer keys from a sign regime (see
// Case.Sign).  style%3 places the magnitudes: 0 dense next to zero, 1 at the
// extremes of int64 (MinInt64 upwards / MaxInt64 downwards), 2 anywhere.
func expandNumsSigned(n, sign, style int, seed uint64, extra []int64) []int64 {
	rnd := vt.NewRand(seed)
	place := ((style % 3) + 3) % 3
	span := int64(4*n + 8)
	neg := func() int64 {
		switch place {
		case 0:
			return -1 - int64(rnd.Uint64()%uint64(span))
		case 1:
			return math.MinInt64 + int64(rnd.Uint64()%uint64(span))
		}
		return -1 - int64(rnd.Uint64()>>1)
	}
	nonneg := func() int64 {
		switch place {
		case 0:
			return int64(rnd.Uint64() % uint64(span))
		case 1:
			return math.MaxInt64 - int64(rnd.Uint64()%uint64(span))
		}
		return int64(rnd.Uint64() >> 1)
	}
	wantNeg, wantPos := 0, 0
	switch sign {
	case 1:
		wantNeg = n
	case 2:
		wantPos = n
	case 4:
		// at least 4096 negative keys, then at least one more key
		if n < 4098 {
			n = 4098
		}
		wantPos = rnd.Intn(100)
		wantNeg = n - wantPos
		if rnd.Intn(2) == 0 {
			wantNeg, wantPos = n, 0 // the keys which follow are negative too
		}
	default:
		wantNeg = n/4 + rnd.Intn(n/2+1)
		wantPos = n - wantNeg
	}
	set := make(map[int64]bool, n)
	var keys []int64
	nNeg, nPos := 0, 0
	add := func(k int64) {
		if set[k] {
			return
		}
		if k < 0 && nNeg < wantNeg {
			nNeg++
		} else if k >= 0 && nPos < wantPos {
			nPos++
		} else {
			return
		}
		set[k] = true
		keys = append(keys, k)
	}
	for _, k := range extra {
		add(k)
	}
	for nNeg < wantNeg {
		add(neg())
	}
	for nPos < wantPos {
		add(nonneg())
	}
	sort.Slice(keys, func(i, j int) bool { return keys[i] < keys[j] })
	return keys
}

func numGap(ks []pdf.Integer, i, j int) []pdf.Integer {
	at := func(x int) int64 { return int64(ks[x]) }
	var out []pdf.Integer
	put := func(k int64) { out = append(out, pdf.Integer(k)) }
	if i >= 0 {
		a := at(i)
		if a < math.MaxInt64 {
			put(a + 1)
		}
		if j < len(ks) {
			b := at(j)
			// midpoint without overflow
			put(a + int64((uint64(b)-uint64(a))/2))
		}
	}
	if j < len(ks) {
		b := at(j)
		if b > math.MinInt64 {
			put(b - 1)
		}
		if i < 0 {
			put(math.MinInt64)
			if b > math.MinInt64+1000 {
				put(b - 1000)
			}
		}
	}
	if j >= len(ks) {
		put(math.MaxInt64)
		if i < 0 {
			put(0)
			put(-1)
			put(math.MinInt64)
		} else if at(i) < math.MaxInt64-1000 {
			put(at(i) + 1000)
		}
	}
	return out
}

func noteNumClasses(c *Case, keys []int64) {
	f := c.obs.flags
	negatives := 0
	for _, k := range keys {
		if k < 0 {
			negatives++
		}
	}
	n := len(keys)
	switch {
	case n > 0 && negatives == n:
		f["all-negative"] = true
	case n > 0 && negatives == 0:
		f["all-nonnegative"] = true
	case n > 0:
		f["mixed-sign"] = true
	}
	if negatives >= maxFan*maxFan && n > maxFan*maxFan {
		// the first intermediate node holds negative keys only, more follow
		f["negative-block>=4096-then-more"] = true
	}
	for i, k := range keys {
		switch {
		case k == math.MinInt64:
			f["min-int64-key"] = true
		case k == math.MaxInt64:
			f["max-int64-key"] = true
		}
		if k < 0 {
			f["negative-key"] = true
		}
		if k == 0 {
			f["zero-key"] = true
		}
		if i > 0 && keys[i-1] != math.MaxInt64 && keys[i-1]+1 == k {
			f["consecutive-ints"] = true
			f["adjacent-keys"] = true
		}
	}
}
