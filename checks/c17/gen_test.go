package c17

import (
	"fmt"
	"math"
	"testing"

	"pgregory.net/rapid"
	"seehuhn.de/go/pdf/verif/internal/gen"
	"seehuhn.de/go/pdf/verif/internal/vt"
)

// sizes the key sets are dense around: 0, 1, the leaf size 64 and its square
var edgeSizes = []int{0, 0, 1, 1, 2, 63, 64, 65, 127, 128, 129, 4095, 4096, 4097, 5000}

var edgeNums = []int64{math.MinInt64, math.MaxInt64, math.MinInt64 + 1, math.MaxInt64 - 1, 0, -1, 1,
	-(1 << 31), 1<<31 - 1, 1 << 31, 1 << 53, -(1 << 53), 1 << 62, -(1 << 62)}

func genCase(t *rapid.T) Case {
	var c Case
	c.Tree = rapid.SampledFrom([]string{"name", "name", "num"}).Draw(t, "tree")
	// Trees above ~4000 keys cost 1-3 s each (the streaming reader parses up
	// to 64 siblings per level and lookup), so the quick tier draws fewer.
	switch k := rapid.IntRange(0, 39).Draw(t, "sizeclass"); {
	case k < 6:
		c.N = rapid.SampledFrom(edgeSizes).Draw(t, "n")
	case k < 6+vt.Scale(1, 3):
		c.N = rapid.IntRange(0, 5000).Draw(t, "n")
	case k < 20:
		c.N = rapid.IntRange(60, 400).Draw(t, "n")
	default:
		c.N = rapid.IntRange(0, 70).Draw(t, "n")
	}
	c.Style = rapid.IntRange(0, 4).Draw(t, "style")
	c.Seed = rapid.Uint64().Draw(t, "seed")
	nExtra := rapid.IntRange(0, 6).Draw(t, "nextra")
	for i := 0; i < nExtra; i++ {
		if c.Tree == "name" {
			var k []byte
			switch rapid.IntRange(0, 3).Draw(t, "extrakind") {
			case 0:
				k = []byte{} // the empty name
			case 1:
				// a prefix / last-byte variation of an earlier extra key
				if len(c.ExtraNames) > 0 {
					prev := c.ExtraNames[rapid.IntRange(0, len(c.ExtraNames)-1).Draw(t, "prev")]
					k = append([]byte{}, prev...)
					switch rapid.IntRange(0, 2).Draw(t, "vary") {
					case 0:
						k = append(k, rapid.Byte().Draw(t, "b"))
					case 1:
						if len(k) > 0 {
							k[len(k)-1] ^= byte(1 << rapid.IntRange(0, 7).Draw(t, "bit"))
						}
					case 2:
						if len(k) > 0 {
							k = k[:len(k)-1]
						}
					}
				}
			default:
				k = gen.Bytes(40).Draw(t, "key")
			}
			c.ExtraNames = append(c.ExtraNames, gen.Hex(k))
		} else {
			var k int64
			if rapid.Bool().Draw(t, "edge") {
				k = rapid.SampledFrom(edgeNums).Draw(t, "k")
			} else {
				k = gen.Int().Draw(t, "k")
			}
			c.ExtraNums = append(c.ExtraNums, k)
		}
	}
	nPool := rapid.IntRange(1, 5).Draw(t, "npool")
	for i := 0; i < nPool; i++ {
		c.Pool = append(c.Pool, gen.Obj(gen.ObjOpts{MaxDepth: 1, NoNil: true, MaxStr: 65, MaxName: 65, MaxWidth: 3}).Draw(t, "value"))
	}
	c.UseMap = c.Tree == "name" && rapid.IntRange(0, 3).Draw(t, "usemap") == 0
	c.Version = rapid.SampledFrom([]int{0, 0, 1, 2}).Draw(t, "version")
	c.Human = rapid.Bool().Draw(t, "human")
	c.InStream = rapid.SampledFrom([]bool{false, false, true}).Draw(t, "instream")
	for k := rapid.SampledFrom([]int{0, 1, 2, 3}).Draw(t, "nedits"); k > 0; k-- {
		c.Edits = append(c.Edits, Edit{
			Kind: rapid.IntRange(0, 2).Draw(t, "editkind"),
			I:    rapid.IntRange(0, 5000).Draw(t, "edit-i"),
			J:    rapid.IntRange(0, 5000).Draw(t, "edit-j"),
		})
	}
	c.EditDirect = len(c.Edits) > 0 && rapid.Bool().Draw(t, "editdirect")
	return c
}

func classify(c *Case) (bool, []string) {
	o := &c.obs
	cls := []string{"tree-" + c.Tree}
	add := func(cond bool, name string) {
		if cond {
			cls = append(cls, name)
		}
	}
	add(o.n == 0, "empty-map")
	add(o.n >= 1 && o.n < maxFan, "root-is-leaf")
	add(o.n == maxFan, "exactly-64")
	add(o.n > maxFan, ">64")
	add(o.n > maxFan*maxFan, ">4096")
	add(o.depth >= 3, "depth>=3")
	add(o.depth >= 4, "depth>=4")
	add(o.betweenLeaves > 0, "absent-between-leaves")
	add(o.gapProbes > 0, "absent-probes")
	add(o.emptyGaps > 0, "gap-without-room")
	add(c.UseMap, "writemap")
	add(c.Human, "human-readable")
	add(c.InStream, "written-inside-open-stream")
	add(c.InStream && o.n > maxFan, "written-inside-open-stream>64")
	add(c.InStream && o.n > maxFan*maxFan, "written-inside-open-stream>4096")
	for _, k := range []string{"empty-name-key", "non-ascii-key", "nul-in-key", "prefix-neighbours", "adjacent-keys",
		"last-byte-differs", "min-int64-key", "max-int64-key", "negative-key", "zero-key", "consecutive-ints",
		"value-null", "value-ref", "value-null-inside", "value-ref-inside",
		"all-repeated-with-kids", "all-stopped-in-second-leaf",
		"inmemory-constructed-edited", "inmemory-extracted-edited", "inmemory-edit-rename", "inmemory-edit-swap",
		"inmemory-edit-move", "inmemory-edited-then-embedded"} {
		add(o.flags[k], k)
	}
	// the rule of DESIGN.md: two levels and an absent-key probe which falls
	// between two leaves
	return o.n > maxFan && o.betweenLeaves > 0, cls
}

func render(c *Case) any {
	return map[string]any{"tree": c.Tree, "n": c.obs.n, "style": c.Style, "leaves": c.obs.leaves, "depth": c.obs.depth,
		"use_map": c.UseMap, "in_stream": c.InStream, "lookups_file": c.obs.probesFile, "lookups_memory": c.obs.probesMem,
		"gaps_probed": c.obs.gapProbes, "gaps_between_leaves": c.obs.betweenLeaves,
		"extra": fmt.Sprintf("%d names, %d nums", len(c.ExtraNames), len(c.ExtraNums))}
}

var treeProp = &vt.Prop[Case]{
	Property: property,
	Kind:     "c17-tree",
	Gen:      genCase,
	Check:    checkCase,
	Classify: classify,
	Render:   render,
}

func init() { vt.Register(treeProp) }

func TestRandom(t *testing.T) { treeProp.Run(t, vt.NewStats(property, "random")) }
