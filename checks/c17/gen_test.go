package c17

import (
	"fmt"
	"math"
	"testing"

	"pgregory.net/rapid"
	"seehuhn.de/go/pdf"
	"seehuhn.de/go/pdf/verif/internal/gen"
	"seehuhn.de/go/pdf/verif/internal/vt"
)

// sizes the key sets are dense around: 0, 1, the leaf size 64 and its square
var edgeSizes = []int{0, 0, 1, 1, 2, 63, 64, 65, 127, 128, 129, 4095, 4096, 4097, 5000}

var edgeNums = []int64{math.MinInt64, math.MaxInt64, math.MinInt64 + 1, math.MaxInt64 - 1, 0, -1, 1,
	-(1 << 31), 1<<31 - 1, 1 << 31, 1 << 53, -(1 << 53), 1 << 62, -(1 << 62)}

func genCase(t *rapid.T) Case {
	var c Case
	c.Tree = rapid.SampledFrom([]string{"name", "name", "num"}).Draw(t, "tree")
	// Trees above ~4000 keys cost 1-3 s each (the streaming reader parses up
	// to 64 siblings per level and lookup), so the quick tier draws fewer.
	switch k := rapid.IntRange(0, 39).Draw(t, "sizeclass"); {
	case k < 6:
		c.N = rapid.SampledFrom(edgeSizes).Draw(t, "n")
	case k < 6+vt.Scale(1, 3):
		c.N = rapid.IntRange(0, 5000).Draw(t, "n")
	case k < 20:
		c.N = rapid.IntRange(60, 400).Draw(t, "n")
	default:
		c.N = rapid.IntRange(0, 70).Draw(t, "n")
	}
	c.Style = rapid.IntRange(0, 4).Draw(t, "style")
	c.Seed = rapid.Uint64().Draw(t, "seed")
	nExtra := rapid.IntRange(0, 6).Draw(t, "nextra")
	for i := 0; i < nExtra; i++ {
		if c.Tree == "name" {
			var k []byte
			switch rapid.IntRange(0, 3).Draw(t, "extrakind") {
			case 0:
				k = []byte{} // the empty name
			case 1:
				// a prefix / last-byte variation of an earlier extra key
				if len(c.ExtraNames) > 0 {
					prev := c.ExtraNames[rapid.IntRange(0, len(c.ExtraNames)-1).Draw(t, "prev")]
					k = append([]byte{}, prev...)
					switch rapid.IntRange(0, 2).Draw(t, "vary") {
					case 0:
						k = append(k, rapid.Byte().Draw(t, "b"))
					case 1:
						if len(k) > 0 {
							k[len(k)-1] ^= byte(1 << rapid.IntRange(0, 7).Draw(t, "bit"))
						}
					case 2:
						if len(k) > 0 {
							k = k[:len(k)-1]
						}
					}
				}
			default:
				k = gen.Bytes(40).Draw(t, "key")
			}
			c.ExtraNames = append(c.ExtraNames, gen.Hex(k))
		} else {
			var k int64
			if rapid.Bool().Draw(t, "edge") {
				k = rapid.SampledFrom(edgeNums).Draw(t, "k")
			} else {
				k = gen.Int().Draw(t, "k")
			}
			c.ExtraNums = append(c.ExtraNums, k)
		}
	}
	nPool := rapid.IntRange(1, 5).Draw(t, "npool")
	for i := 0; i < nPool; i++ {
		c.Pool = append(c.Pool, gen.Obj(gen.ObjOpts{MaxDepth: 1, NoNil: true, MaxStr: 65, MaxName: 65, MaxWidth: 3}).Draw(t, "value"))
	}
	c.UseMap = c.Tree == "name" && rapid.IntRange(0, 3).Draw(t, "usemap") == 0
	c.Version = rapid.SampledFrom([]int{0, 0, 0, 1, 1, 2, 2, 3, 4, 5, 6, 7, 8}).Draw(t, "version")
	c.Human = rapid.Bool().Draw(t, "human")
	c.InStream = rapid.SampledFrom([]bool{false, false, true}).Draw(t, "instream")
	for k := rapid.SampledFrom([]int{0, 1, 2, 3}).Draw(t, "nedits"); k > 0; k-- {
		c.Edits = append(c.Edits, Edit{
			Kind: rapid.IntRange(0, 2).Draw(t, "editkind"),
			I:    rapid.IntRange(0, 5000).Draw(t, "edit-i"),
			J:    rapid.IntRange(0, 5000).Draw(t, "edit-j"),
		})
	}
	c.EditDirect = len(c.Edits) > 0 && rapid.Bool().Draw(t, "editdirect")
	return c
}

func classify(c *Case) (bool, []string) {
	o := &c.obs
	cls := []string{"tree-" + c.Tree}
	add := func(cond bool, name string) {
		if cond {
			cls = append(cls, name)
		}
	}
	add(o.n == 0, "empty-map")
	add(o.n >= 1 && o.n < maxFan, "root-is-leaf")
	add(o.n == maxFan, "exactly-64")
	add(o.n > maxFan, ">64")
	add(o.n > maxFan*maxFan, ">4096")
	add(o.depth >= 3, "depth>=3")
	add(o.depth >= 4, "depth>=4")
	add(o.betweenLeaves > 0, "absent-between-leaves")
	add(o.gapProbes > 0, "absent-probes")
	add(o.emptyGaps > 0, "gap-without-room")
	add(c.UseMap, "writemap")
	add(c.Human, "human-readable")
	add(c.InStream, "written-inside-open-stream")
	add(c.InStream && o.n > maxFan, "written-inside-open-stream>64")
	add(c.InStream && o.n > maxFan*maxFan, "written-inside-open-stream>4096")
	for _, k := range []string{"all-negative", "all-nonnegative", "mixed-sign"} {
		add(o.flags[k], k)
		add(o.flags[k] && o.n > maxFan, k+">64")
		add(o.flags[k] && o.n > maxFan*maxFan, k+">4096")
	}
	add(o.flags["negative-block>=4096-then-more"], "negative-block>=4096-then-more")
	for _, v := range versions {
		add(o.flags["pdf-"+v.String()], "pdf-"+v.String())
	}
	for _, k := range []string{"nametree-in-1.2", "numtree-in-1.3", "below-spec-version", "version-error-below-spec"} {
		add(o.flags[k], k)
		add(o.flags[k] && o.n > maxFan, k+">64")
	}
	add(o.ilLookups > 0, "lookup-inside-all")
	add(o.ilLookups > 0 && o.n > maxFan, "lookup-inside-all>64")
	add(o.ilLookups > 0 && o.n > maxFan*maxFan, "lookup-inside-all>4096")
	add(o.ilLockstep >= 2, "lockstep-all")
	add(o.ilLockstep >= 2 && o.n > maxFan, "lockstep-all>64")
	add(o.ilLockstep >= 3 && o.n > maxFan, "lockstep-all-three>64")
	add(o.ilLockstep >= 2 && o.n > maxFan*maxFan, "lockstep-all>4096")
	add(o.ilLockstep >= 2 && c.Interleave != nil && c.Interleave.ShareSeq && o.n > maxFan, "lockstep-one-seq-value>64")
	add(o.ilAbandoned && o.n > maxFan, "abandoned-while-others-continue>64")
	for _, k := range []string{"empty-name-key", "non-ascii-key", "nul-in-key", "prefix-neighbours", "adjacent-keys",
		"last-byte-differs", "min-int64-key", "max-int64-key", "negative-key", "zero-key", "consecutive-ints",
		"value-null", "value-ref", "value-null-inside", "value-ref-inside",
		"all-repeated-with-kids", "all-stopped-in-second-leaf",
		"inmemory-constructed-edited", "inmemory-extracted-edited", "inmemory-edit-rename", "inmemory-edit-swap",
		"inmemory-edit-move", "inmemory-edited-then-embedded"} {
		add(o.flags[k], k)
	}
	// the rule of DESIGN.md: two levels and an absent-key probe which falls
	// between two leaves
	return o.n > maxFan && o.betweenLeaves > 0, cls
}

func render(c *Case) any {
	return map[string]any{"tree": c.Tree, "n": c.obs.n, "style": c.Style, "sign": c.Sign, "leaves": c.obs.leaves, "depth": c.obs.depth,
		"use_map": c.UseMap, "in_stream": c.InStream, "lookups_file": c.obs.probesFile, "lookups_memory": c.obs.probesMem,
		"gaps_probed": c.obs.gapProbes, "gaps_between_leaves": c.obs.betweenLeaves,
		"extra": fmt.Sprintf("%d names, %d nums", len(c.ExtraNames), len(c.ExtraNums))}
}

var treeProp = &vt.Prop[Case]{
	Property: property,
	Kind:     "c17-tree",
	Gen:      genCase,
	Check:    checkCase,
	Classify: classify,
	Render:   render,
}

func init() { vt.Register(treeProp) }

func TestRandom(t *testing.T) { treeProp.Run(t, vt.NewStats(property, "random")) }

// TestNumSigns enumerates number trees by sign regime of their keys: all
// negative, all non-negative, mixed, and a block of at least 4096 negative
// keys followed by more keys; sizes cross the leaf size 64 and (once per
// regime in the thorough tier, twice in all in the quick tier) its square.
// No rapid: regimes x placements x sizes are enumerated, the seeds derive
// from the process seed.
func TestNumSigns(t *testing.T) {
	st := vt.NewStats(property, "numtree")
	sizes := []int{1, 2, 63, 64, 65, 66, 127, 128, 129, 200, 300}
	if vt.Thorough() {
		sizes = append(sizes, 100, 400, 700, 1000, 4095, 4096, 4097, 5000)
	}
	type item struct{ sign, place, n int }
	var items []item
	for _, sign := range []int{1, 2, 3} {
		for place := 0; place < 3; place++ {
			for _, n := range sizes {
				items = append(items, item{sign, place, n})
			}
		}
	}
	// crossing 4096: all negative, and a negative block followed by more
	items = append(items, item{1, 0, 4097}, item{4, 1, 4200})
	if vt.Thorough() {
		for place := 0; place < 3; place++ {
			items = append(items, item{4, place, 4098}, item{4, place, 4300}, item{4, place, 5000})
		}
	}
	rounds := vt.Scale(1, 4)
	idx := 0
	for round := 0; round < rounds; round++ {
		for _, it := range items {
			idx++
			if !vt.Mine(idx) {
				continue
			}
			c := Case{Tree: "num", N: it.n, Style: it.place, Sign: it.sign,
				Seed:     vt.Seed()*1000003 + uint64(idx)*7919,
				Pool:     []gen.O{{T: "int", I: int64(idx)}, {T: "null"}, {T: "name", S: gen.Hex("v")}},
				Version:  idx % len(versions),
				InStream: idx%3 == 1,
			}
			if idx%2 == 0 {
				c.Edits = []Edit{{Kind: idx / 2 % 3, I: idx * 31, J: idx * 17}}
				c.EditDirect = idx%4 == 0
			}
			err := vt.Guard(func() error { return checkCase(&c) })
			_, classes := classify(&c)
			// non-trivial here: an intermediate node exists and the regime
			// is not the ordinary mixed one
			st.Eval(vt.Hash(&c), c.obs.n > maxFan, classes...)
			st.Sample(func() any { return render(&c) })
			if err != nil {
				vt.Violation(property, treeProp.Kind, &c, err.Error())
				t.Fatalf("%v", err)
			}
		}
	}
	st.Note("enumerated %d sign-regime cases per round (regimes all-negative / all-non-negative / mixed x 3 placements x %d sizes, plus trees crossing 4096)", len(items), len(sizes))
}

// TestVersions enumerates target document versions 1.0-2.0 x tree kind x
// sizes 0, 1, 64, 65, 200 (names: Write and WriteMap); the usual oracle
// applies wherever a tree is written, see specVersion for what may be refused.
func TestVersions(t *testing.T) {
	st := vt.NewStats(property, "version")
	idx := 0
	for round := 0; round < vt.Scale(1, 4); round++ {
		for v := range versions {
			for _, tree := range []string{"name", "num"} {
				for _, n := range []int{0, 1, 64, 65, 200} {
					for _, useMap := range []bool{false, true} {
						if useMap && tree != "name" {
							continue
						}
						idx++
						if !vt.Mine(idx) {
							continue
						}
						c := Case{Tree: tree, N: n, Style: idx % 5, UseMap: useMap, Version: v,
							Seed:     vt.Seed()*1000003 + uint64(idx)*104729,
							Pool:     []gen.O{{T: "int", I: int64(idx)}, {T: "str", S: gen.Hex("v")}},
							Human:    idx%2 == 0,
							InStream: idx%3 == 0,
						}
						if idx%4 == 1 {
							c.Edits = []Edit{{Kind: idx % 3, I: idx * 13, J: idx * 7}}
						}
						err := vt.Guard(func() error { return checkCase(&c) })
						_, classes := classify(&c)
						st.Eval(vt.Hash(&c), c.obs.n > 0 && versions[v] < pdf.V1_4, classes...)
						st.Sample(func() any { return render(&c) })
						if err != nil {
							vt.Violation(property, treeProp.Kind, &c, err.Error())
							t.Fatalf("%v", err)
						}
					}
				}
			}
		}
	}
	st.Note("enumerated all %d document versions x {name, num} x sizes {0, 1, 64, 65, 200} (names also through WriteMap)", len(versions))
}
