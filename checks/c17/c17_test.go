// Package c17 checks property C17: name trees and number trees are faithful,
// ordered dictionaries.
//
// A case describes a finite map (key set expanded from a seed plus explicitly
// drawn edge keys; values from a small drawn pool, tagged with the index of
// the key).  The map is written with nametree.Write / nametree.WriteMap /
// numtree.Write into an in-memory file, the file is re-opened, and
//
//   - an own structural validator walks the raw node dictionaries,
//   - the streaming reader (ExtractFromFile: Lookup, All), the in-memory
//     reader (ExtractInMemory: Data, Lookup, All) and Size are compared with
//     the model, a sorted slice ordered by the model's own comparison.
package c17

import (
	"bytes"
	"errors"
	"fmt"
	"io"
	"iter"
	"sort"
	"testing"

	"seehuhn.de/go/pdf"
	"seehuhn.de/go/pdf/internal/debug/memfile"
	"seehuhn.de/go/pdf/nametree"
	"seehuhn.de/go/pdf/numtree"
	"seehuhn.de/go/pdf/verif/internal/gen"
	"seehuhn.de/go/pdf/verif/internal/vt"
)

func TestMain(m *testing.M) { vt.Main(m) }

func TestReplay(t *testing.T) { vt.RunReplay(t) }

const property = "C17"

// maxFan is the bound on kids per intermediate node and on entries per leaf
// (pdftree.maxChildren, "64 entries" in the property's anchors).
const maxFan = 64

// versions is indexed by Case.Version (indices 0-2 are kept for old replay
// files).  The tree writers use only Writer.Put of dictionaries and arrays,
// which every PDF version supports.
var versions = []pdf.Version{pdf.V1_4, pdf.V1_7, pdf.V2_0, pdf.V1_0, pdf.V1_1, pdf.V1_2, pdf.V1_3, pdf.V1_5, pdf.V1_6}

// specVersion is the PDF version which introduced the structure: name trees
// PDF 1.2, number trees PDF 1.3 (ISO 32000-1 7.9.6, 7.9.7).  From that
// version on a writer must produce the tree.  Below it the unchanged library
// writes the tree as well (it has no version checks); the check accepts a
// pdf.VersionError there too, since refusing a structure the target version
// does not know is no violation of the property.
func specVersion(tree string) pdf.Version {
	if tree == "name" {
		return pdf.V1_2
	}
	return pdf.V1_3
}

// Case is one finite map.
type Case struct {
	// Tree is "name" or "num".
	Tree string `json:"tree"`
	// N is the number of keys (extras included).
	N int `json:"n"`
	// Style selects the key expander, Seed feeds it.
	Style int    `json:"style"`
	Seed  uint64 `json:"seed"`
	// ExtraNames / ExtraNums are explicitly drawn keys which are put into
	// the map first (as many as fit into N).
	ExtraNames []gen.Hex `json:"extra_names,omitempty"`
	ExtraNums  []int64   `json:"extra_nums,omitempty"`
	// Pool holds the values; entry i gets Pool[x] either bare or wrapped as
	// [i Pool[x]], chosen from Seed.
	Pool []gen.O `json:"pool"`
	// UseMap writes a name tree through WriteMap instead of Write.
	UseMap  bool `json:"use_map"`
	Version int  `json:"version"`
	Human   bool `json:"human"`
	// InStream writes the tree while a stream opened with Writer.OpenStream
	// is still open on the same pdf.Writer.  Writer.Put then only queues the
	// node objects; they reach the file when the stream is closed, so the
	// tree writer must not reuse storage between nodes.
	InStream bool `json:"in_stream,omitempty"`
	// Sign selects a sign regime for the keys of a number tree (0: none, the
	// keys come from Style): 1 all negative, 2 all non-negative, 3 mixed,
	// 4 a block of at least 4096 negative keys (one full intermediate node)
	// followed by further keys.  Style then picks where the keys lie (near
	// zero, at the extremes of int64, anywhere).
	Sign int `json:"sign,omitempty"`
	// Interleave, if set, adds interleaved use of ONE streaming reader
	// (FromFile) object: lookups issued while an All enumeration is running,
	// and several All enumerations advanced alternately.
	Interleave *Interleave `json:"interleave,omitempty"`
	// Edits are size-preserving changes applied to the exported Data map of
	// an InMemory tree after one full All() pass; the edited tree must then
	// enumerate, look up and embed as the edited map.  EditDirect applies
	// them to an InMemory value constructed directly from the map instead of
	// the one returned by ExtractInMemory.  Skipped for maps above 1000 keys.
	Edits      []Edit `json:"edits,omitempty"`
	EditDirect bool   `json:"edit_direct,omitempty"`

	obs observed
}

// Edit is one size-preserving change of an InMemory tree's Data map.
type Edit struct {
	// Kind: 0 rename entry I to an absent neighbour key (same position),
	// 1 swap the values of entries I and J, 2 delete entry I and insert a
	// new key above the maximum (or below the minimum).
	Kind int `json:"kind"`
	I    int `json:"i"`
	J    int `json:"j"`
}

type observed struct {
	n             int
	leaves        int
	depth         int
	gapProbes     int
	betweenLeaves int
	emptyGaps     int
	probesFile    int
	probesMem     int
	flags         map[string]bool
	ilLookups     int
	ilLockstep    int
	ilAbandoned   bool
}

// ---------------------------------------------------------------------------
// the two tree kinds behind one interface

type reader[K comparable] interface {
	Lookup(K) (pdf.Object, error)
	All() iter.Seq2[K, pdf.Object]
}

type api[K comparable] struct {
	leafKey pdf.Name
	// less is the model's order: ISO 32000-1 7.9.6 sorts name tree keys
	// "in lexical order" of their bytes, 7.9.7 number tree keys numerically.
	less func(a, b K) bool
	// keyObj is the raw form a key must have in the file.
	keyObj func(K) pdf.Object
	// rawKey converts a raw, direct object into a key.
	rawKey   func(pdf.Object) (K, bool)
	show     func(K) string
	write    func(w *pdf.Writer, keys []K, vals []pdf.Object, useMap bool) (pdf.Reference, error)
	fromFile func(r pdf.Getter, root pdf.Object) (reader[K], error)
	inMemory func(r pdf.Getter, root pdf.Object) (reader[K], map[K]pdf.Object, bool, error)
	size     func(r pdf.Getter, root pdf.Object) (int, error)
	notFound error
	// construct builds an InMemory tree directly around the given map.
	construct func(data map[K]pdf.Object) reader[K]
	// gap proposes absent keys between keys[i] and keys[j] (see run).
	gap func(keys []K, i, j int) []K
}

var nameAPI = api[pdf.Name]{
	leafKey: "Names",
	less:    func(a, b pdf.Name) bool { return bytes.Compare([]byte(a), []byte(b)) < 0 },
	keyObj:  func(k pdf.Name) pdf.Object { return pdf.String(k) },
	rawKey: func(o pdf.Object) (pdf.Name, bool) {
		s, ok := o.(pdf.String)
		return pdf.Name(s), ok
	},
	show: func(k pdf.Name) string { return fmt.Sprintf("%q", string(k)) },
	write: func(w *pdf.Writer, keys []pdf.Name, vals []pdf.Object, useMap bool) (pdf.Reference, error) {
		if useMap {
			m := make(map[pdf.Name]pdf.Object, len(keys))
			for i, k := range keys {
				m[k] = vals[i]
			}
			return nametree.WriteMap(w, m)
		}
		return nametree.Write(w, func(yield func(pdf.Name, pdf.Object) bool) {
			for i, k := range keys {
				if !yield(k, vals[i]) {
					return
				}
			}
		})
	},
	fromFile: func(r pdf.Getter, root pdf.Object) (reader[pdf.Name], error) {
		return nametree.ExtractFromFile(r, root)
	},
	inMemory: func(r pdf.Getter, root pdf.Object) (reader[pdf.Name], map[pdf.Name]pdf.Object, bool, error) {
		t, err := nametree.ExtractInMemory(r, root)
		if t == nil {
			return t, nil, true, err
		}
		return t, t.Data, false, err
	},
	size:      nametree.Size,
	notFound:  nametree.ErrKeyNotFound,
	construct: func(data map[pdf.Name]pdf.Object) reader[pdf.Name] { return &nametree.InMemory{Data: data} },
	gap:       nameGap,
}

var numAPI = api[pdf.Integer]{
	leafKey: "Nums",
	less:    func(a, b pdf.Integer) bool { return a < b },
	keyObj:  func(k pdf.Integer) pdf.Object { return k },
	rawKey: func(o pdf.Object) (pdf.Integer, bool) {
		i, ok := o.(pdf.Integer)
		return i, ok
	},
	show: func(k pdf.Integer) string { return fmt.Sprintf("%d", int64(k)) },
	write: func(w *pdf.Writer, keys []pdf.Integer, vals []pdf.Object, _ bool) (pdf.Reference, error) {
		return numtree.Write(w, func(yield func(pdf.Integer, pdf.Object) bool) {
			for i, k := range keys {
				if !yield(k, vals[i]) {
					return
				}
			}
		})
	},
	fromFile: func(r pdf.Getter, root pdf.Object) (reader[pdf.Integer], error) {
		return numtree.ExtractFromFile(r, root)
	},
	inMemory: func(r pdf.Getter, root pdf.Object) (reader[pdf.Integer], map[pdf.Integer]pdf.Object, bool, error) {
		t, err := numtree.ExtractInMemory(r, root)
		if t == nil {
			return t, nil, true, err
		}
		return t, t.Data, false, err
	},
	size:      numtree.Size,
	notFound:  numtree.ErrKeyNotFound,
	construct: func(data map[pdf.Integer]pdf.Object) reader[pdf.Integer] { return &numtree.InMemory{Data: data} },
	gap:       numGap,
}

// ---------------------------------------------------------------------------
// the check

func checkCase(c *Case) error {
	c.obs = observed{flags: map[string]bool{}}
	if c.Version < 0 || c.Version >= len(versions) || c.N < 0 || c.N > 20000 {
		return fmt.Errorf("bad case: version %d, n %d", c.Version, c.N)
	}
	switch c.Tree {
	case "name":
		raw := expandNames(c.N, c.Style, c.Seed, c.ExtraNames)
		keys := make([]pdf.Name, len(raw))
		for i, k := range raw {
			keys[i] = pdf.Name(k)
		}
		noteNameClasses(c, raw)
		return run(c, nameAPI, keys)
	case "num":
		var raw []int64
		if c.Sign != 0 {
			raw = expandNumsSigned(c.N, c.Sign, c.Style, c.Seed, c.ExtraNums)
		} else {
			raw = expandNums(c.N, c.Style, c.Seed, c.ExtraNums)
		}
		keys := make([]pdf.Integer, len(raw))
		for i, k := range raw {
			keys[i] = pdf.Integer(k)
		}
		noteNumClasses(c, raw)
		return run(c, numAPI, keys)
	}
	return fmt.Errorf("bad case: tree kind %q", c.Tree)
}

// values derives the value of every entry from the pool.
func values(c *Case, n int) []pdf.Object {
	vals := make([]pdf.Object, n)
	rnd := vt.NewRand(c.Seed ^ 0xA5A5A5A5)
	for i := range vals {
		var base pdf.Object
		if len(c.Pool) > 0 {
			p := c.Pool[rnd.Intn(len(c.Pool))]
			base = p.PDF()
			switch p.T {
			case "null":
				c.obs.flags["value-null-inside"] = true
			case "ref":
				c.obs.flags["value-ref-inside"] = true
			}
		}
		if n > 1000 && rnd.Intn(8) != 0 {
			// keep the nodes of large trees small: the streaming reader
			// parses up to 64 sibling nodes per lookup
			vals[i] = pdf.Integer(i)
			continue
		}
		if rnd.Intn(4) == 0 {
			vals[i] = base
			if base == nil {
				c.obs.flags["value-null"] = true
			}
			if _, ok := base.(pdf.Reference); ok {
				c.obs.flags["value-ref"] = true
			}
		} else {
			vals[i] = pdf.Array{pdf.Integer(i), base}
		}
	}
	return vals
}

// run writes the map, validates the raw tree and compares the readers.
// keys must be sorted by a.less and free of duplicates (the expanders
// guarantee this; it is re-checked here with the model's order).  a.gap(keys, i, j)
// proposes absent keys strictly between keys[i] and keys[j]; i == -1 stands
// for "below the minimum", j == len(keys) for "above the maximum".
func run[K comparable](c *Case, a api[K], keys []K) error {
	n := len(keys)
	c.obs.n = n
	for i := 1; i < n; i++ {
		if !a.less(keys[i-1], keys[i]) {
			return fmt.Errorf("internal: expander produced unsorted keys at %d", i)
		}
	}
	vals := values(c, n)

	out, mf := memfile.NewPDFWriter(versions[c.Version], &pdf.WriterOptions{HumanReadable: c.Human})
	var stm io.WriteCloser
	if c.InStream {
		var err error
		stm, err = out.OpenStream(out.Alloc(), nil)
		if err != nil {
			return fmt.Errorf("OpenStream: %v", err)
		}
		if _, err := stm.Write([]byte("0 0 m 100 100 l S\n")); err != nil {
			return fmt.Errorf("writing to the open stream: %v", err)
		}
	}
	before := out.Alloc()
	root, err := a.write(out, keys, vals, c.UseMap)
	ver := versions[c.Version]
	c.obs.flags["pdf-"+ver.String()] = true
	if ver < specVersion(c.Tree) {
		c.obs.flags["below-spec-version"] = true
		var ve *pdf.VersionError
		if err != nil && errors.As(err, &ve) {
			c.obs.flags["version-error-below-spec"] = true
			return nil
		}
	}
	if err != nil {
		return fmt.Errorf("writing a %s tree of %d sorted, distinct keys into a PDF %s file failed (stream open: %v): %v", c.Tree, n, ver, c.InStream, err)
	}
	if c.Tree == "name" && ver == pdf.V1_2 {
		c.obs.flags["nametree-in-1.2"] = true
	}
	if c.Tree == "num" && ver == pdf.V1_3 {
		c.obs.flags["numtree-in-1.3"] = true
	}
	after := out.Alloc()
	if stm != nil {
		if _, err := stm.Write([]byte("Q\n")); err != nil {
			return fmt.Errorf("writing to the open stream after the tree: %v", err)
		}
		if err := stm.Close(); err != nil {
			return fmt.Errorf("closing the stream which was open while the tree was written: %v", err)
		}
	}
	if err := out.Close(); err != nil {
		return fmt.Errorf("Writer.Close: %v", err)
	}
	r, err := pdf.NewReader(mf, int64(len(mf.Data)), nil)
	if err != nil {
		return fmt.Errorf("cannot re-open the written file: %v", err)
	}

	if n == 0 {
		// an empty map yields no tree
		if root != 0 {
			return fmt.Errorf("empty map: Write returned %v, want the zero reference", root)
		}
		// no object: whatever object numbers Write may have reserved, none
		// of them exists in the file
		for num := before.Number() + 1; num < after.Number(); num++ {
			obj, err := r.Get(pdf.NewReference(num, 0), true)
			if err != nil || obj != nil {
				return fmt.Errorf("empty map: Write left object %d in the file (%s, err %v)", num, vt.Show(obj), err)
			}
		}
		// "no tree" is what a caller sees as a nil root
		return compareReaders(c, a, r, nil, nil, nil, nil)
	}
	if root == 0 {
		return fmt.Errorf("map of %d entries: Write returned the zero reference", n)
	}

	if err := validateAndCompare(c, a, r, root, keys, vals, true); err != nil {
		return err
	}
	if c.Interleave != nil {
		if err := interleaveStep(c, a, r, root, keys, vals); err != nil {
			return err
		}
	}
	if len(c.Edits) > 0 && n <= 1000 {
		return editStep(c, a, r, root, keys, vals)
	}
	return nil
}

// validateAndCompare runs the structural validator over the raw nodes of the
// tree at root and compares all readers with the model (keys, vals).
func validateAndCompare[K comparable](c *Case, a api[K], r *pdf.Reader, root pdf.Reference, keys []K, vals []pdf.Object, record bool) error {
	n := len(keys)
	v := &validator[K]{a: a, r: r, seen: map[pdf.Reference]bool{}}
	if _, _, err := v.node(root, true, 1); err != nil {
		return err
	}
	if record {
		for _, e := range v.leafEnd {
			if e {
				c.obs.leaves++
			}
		}
		c.obs.depth = v.maxDepth
	}
	if len(v.keys) != n {
		return fmt.Errorf("the tree holds %d entries, the map has %d", len(v.keys), n)
	}
	for i := range keys {
		if v.keys[i] != keys[i] {
			return fmt.Errorf("entry %d of the tree has key %s, the map's key %d is %s", i, a.show(v.keys[i]), i, a.show(keys[i]))
		}
		if err := vt.EqObj(vals[i], v.vals[i]); err != nil {
			return fmt.Errorf("raw value stored for key %s differs: %v", a.show(keys[i]), err)
		}
	}
	return compareReaders(c, a, r, root, keys, vals, v.leafEnd)
}

// editStep checks that an InMemory tree follows its exported Data map: after
// one full All() pass the map is edited (size unchanged); All, Lookup and
// Embed must then show exactly the edited map.  The embedded tree is written
// to a fresh file and gets the full oracle.
func editStep[K comparable](c *Case, a api[K], r *pdf.Reader, root pdf.Reference, keys0 []K, vals0 []pdf.Object) error {
	keys := append([]K{}, keys0...)
	vals := append([]pdf.Object{}, vals0...)
	n := len(keys)

	var tree reader[K]
	var data map[K]pdf.Object
	if c.EditDirect {
		data = make(map[K]pdf.Object, n)
		for i, k := range keys {
			data[k] = vals[i]
		}
		tree = a.construct(data)
		c.obs.flags["inmemory-constructed-edited"] = true
	} else {
		t, d, isNil, err := a.inMemory(r, root)
		if err != nil || isNil {
			return fmt.Errorf("edit step: ExtractInMemory failed: nil %v, err %v", isNil, err)
		}
		tree, data = t, d
		c.obs.flags["inmemory-extracted-edited"] = true
	}
	cnt := 0
	for range tree.All() {
		cnt++
	}
	if cnt != n {
		return fmt.Errorf("edit step: All() before the edits yielded %d entries, want %d", cnt, n)
	}

	// between returns an absent key strictly between entries lo and hi of
	// the model (lo == -1 / hi == n: unbounded), judged by the model's order
	between := func(lo, hi int) (K, bool) {
		for _, k := range a.gap(keys, lo, hi) {
			if lo >= 0 && !a.less(keys[lo], k) {
				continue
			}
			if hi < len(keys) && !a.less(k, keys[hi]) {
				continue
			}
			return k, true
		}
		var zero K
		return zero, false
	}
	applied := 0
	for e, ed := range c.Edits {
		if len(keys) == 0 {
			break
		}
		i := mod(ed.I, len(keys))
		j := mod(ed.J, len(keys))
		newVal := pdf.Array{pdf.Integer(-1 - e), pdf.Name("edited")}
		switch mod(ed.Kind, 3) {
		case 0: // rename in place
			k, ok := between(i, i+1)
			if !ok {
				k, ok = between(i-1, i)
			}
			if !ok {
				continue
			}
			data[k] = data[keys[i]]
			delete(data, keys[i])
			keys[i] = k
			c.obs.flags["inmemory-edit-rename"] = true
		case 1: // swap two values
			if i == j {
				continue
			}
			data[keys[i]], data[keys[j]] = data[keys[j]], data[keys[i]]
			vals[i], vals[j] = vals[j], vals[i]
			c.obs.flags["inmemory-edit-swap"] = true
		case 2: // delete one entry, insert a new one at an end
			if k, ok := between(len(keys)-1, len(keys)); ok && (i != len(keys)-1 || len(keys) == 1) {
				delete(data, keys[i])
				keys = append(append(keys[:i:i], keys[i+1:]...), k)
				vals = append(append(vals[:i:i], vals[i+1:]...), newVal)
				data[k] = newVal
			} else if k, ok := between(-1, 0); ok && i != 0 {
				delete(data, keys[i])
				keys = append([]K{k}, append(keys[:i:i], keys[i+1:]...)...)
				vals = append([]pdf.Object{newVal}, append(vals[:i:i], vals[i+1:]...)...)
				data[k] = newVal
			} else {
				continue
			}
			c.obs.flags["inmemory-edit-move"] = true
		}
		applied++
	}
	if applied == 0 {
		return nil
	}
	if len(data) != n || len(keys) != n {
		return fmt.Errorf("internal: edits changed the size (%d, %d, want %d)", len(data), len(keys), n)
	}
	for i := 1; i < n; i++ {
		if !a.less(keys[i-1], keys[i]) {
			return fmt.Errorf("internal: edited model is not sorted at %d", i)
		}
	}

	// All and Lookup of the edited in-memory tree
	i := 0
	for k, val := range tree.All() {
		if i >= n || k != keys[i] {
			return fmt.Errorf("InMemory.All after editing Data: entry %d has key %s, the edited map has %d entries and key %s there",
				i, a.show(k), n, a.show(keys[min(i, n-1)]))
		}
		if err := vt.EqObj(vals[i], val); err != nil {
			return fmt.Errorf("InMemory.All after editing Data: value of key %s: %v", a.show(k), err)
		}
		i++
	}
	if i != n {
		return fmt.Errorf("InMemory.All after editing Data yielded %d entries, the edited map has %d", i, n)
	}
	inEdited := make(map[K]bool, n)
	for i, k := range keys {
		inEdited[k] = true
		got, err := tree.Lookup(k)
		if err != nil {
			return fmt.Errorf("InMemory.Lookup(%s) after editing Data failed: %v", a.show(k), err)
		}
		if err := vt.EqObj(vals[i], got); err != nil {
			return fmt.Errorf("InMemory.Lookup(%s) after editing Data: %v", a.show(k), err)
		}
	}
	for _, k := range keys0 {
		if inEdited[k] {
			continue
		}
		if got, err := tree.Lookup(k); err == nil || !errors.Is(err, a.notFound) {
			return fmt.Errorf("InMemory.Lookup(%s) for a key removed from Data returned %s, %v", a.show(k), vt.Show(got), err)
		}
	}

	// Embed into a fresh file, then the full oracle on what was written
	emb, ok := tree.(pdf.Embedder)
	if !ok {
		return fmt.Errorf("internal: %T is not a pdf.Embedder", tree)
	}
	out, mf := memfile.NewPDFWriter(versions[c.Version], &pdf.WriterOptions{HumanReadable: c.Human})
	rm := pdf.NewResourceManager(out)
	obj, err := rm.Embed(emb)
	if err != nil {
		return fmt.Errorf("Embed of the edited in-memory tree failed: %v", err)
	}
	if err := rm.Close(); err != nil {
		return fmt.Errorf("ResourceManager.Close: %v", err)
	}
	if err := out.Close(); err != nil {
		return fmt.Errorf("Writer.Close: %v", err)
	}
	root2, ok := obj.(pdf.Reference)
	if !ok || root2 == 0 {
		return fmt.Errorf("Embed of an in-memory tree of %d entries returned %s, want a reference", n, vt.Show(obj))
	}
	r2, err := pdf.NewReader(mf, int64(len(mf.Data)), nil)
	if err != nil {
		return fmt.Errorf("cannot re-open the file with the embedded tree: %v", err)
	}
	if err := validateAndCompare(c, a, r2, root2, keys, vals, false); err != nil {
		return fmt.Errorf("tree embedded from the edited in-memory tree: %v", err)
	}
	c.obs.flags["inmemory-edited-then-embedded"] = true
	return nil
}

func mod(a, n int) int {
	a %= n
	if a < 0 {
		a += n
	}
	return a
}

// compareReaders compares Lookup / All of both readers and Size with the
// model.  leafEnd[i] is true if entry i is the last of its leaf.
func compareReaders[K comparable](c *Case, a api[K], r pdf.Getter, rootRef pdf.Object, keys []K, vals []pdf.Object,
	leafEnd []bool) error {
	n := len(keys)
	ff, err := a.fromFile(r, rootRef)
	if err != nil {
		return fmt.Errorf("ExtractFromFile failed: %v", err)
	}
	im, data, imNil, err := a.inMemory(r, rootRef)
	if err != nil {
		return fmt.Errorf("ExtractInMemory failed: %v", err)
	}
	if n > 0 && imNil {
		return fmt.Errorf("ExtractInMemory returned nil for a tree of %d entries", n)
	}

	// ---- All: every entry once, ascending -- on every pass
	// The value returned by All() is an ordinary iter.Seq2: ranging over it
	// again (after a complete pass, or after a pass which stopped early)
	// starts a new enumeration, as it does for the in-memory reader, whose
	// behaviour the streaming reader has to agree with.  Each reader is
	// ranged: fully and fully again over one sequence value; one entry, then
	// fully; 65 entries (into the second leaf), then fully.
	for _, rd := range []struct {
		name string
		t    reader[K]
	}{{"ExtractFromFile", ff}, {"ExtractInMemory", im}} {
		// pass ranges over seq, stopping after limit entries if limit > 0,
		// and compares what it gets with the model
		pass := func(seq iter.Seq2[K, pdf.Object], what string, limit int) error {
			want := n
			if limit > 0 && limit < n {
				want = limit
			}
			i := 0
			for k, val := range seq {
				if i >= n {
					return fmt.Errorf("%s.All (%s) yields more than the %d entries of the map (extra key %s)", rd.name, what, n, a.show(k))
				}
				if k != keys[i] {
					return fmt.Errorf("%s.All (%s): entry %d has key %s, want %s", rd.name, what, i, a.show(k), a.show(keys[i]))
				}
				if err := vt.EqObj(vals[i], val); err != nil {
					return fmt.Errorf("%s.All (%s): value of key %s: %v", rd.name, what, a.show(k), err)
				}
				i++
				if limit > 0 && i >= limit {
					break
				}
			}
			if i != want {
				return fmt.Errorf("%s.All (%s) yielded %d entries, want %d of the map's %d", rd.name, what, i, want, n)
			}
			return nil
		}
		seq := rd.t.All()
		if err := pass(seq, "first pass", 0); err != nil {
			return err
		}
		if err := pass(seq, "second pass over the same sequence value", 0); err != nil {
			return err
		}
		for _, stop := range []int{1, 65} {
			seq := rd.t.All()
			if err := pass(seq, fmt.Sprintf("pass stopped after %d entries", stop), stop); err != nil {
				return err
			}
			if err := pass(seq, fmt.Sprintf("full pass after a pass stopped after %d entries", stop), 0); err != nil {
				return err
			}
		}
	}
	if n >= maxFan {
		// from 64 entries on the root has /Kids
		c.obs.flags["all-repeated-with-kids"] = true
	}
	if n > 65 {
		c.obs.flags["all-stopped-in-second-leaf"] = true
	}
	if !imNil {
		if len(data) != n {
			return fmt.Errorf("ExtractInMemory: Data has %d entries, the map has %d", len(data), n)
		}
		for i, k := range keys {
			got, ok := data[k]
			if !ok {
				return fmt.Errorf("ExtractInMemory: Data lacks key %s", a.show(k))
			}
			if err := vt.EqObj(vals[i], got); err != nil {
				return fmt.Errorf("ExtractInMemory: Data[%s]: %v", a.show(k), err)
			}
		}
	}
	sz, err := a.size(r, rootRef)
	if err != nil || sz != n {
		return fmt.Errorf("Size = %d, %v; the map has %d entries", sz, err, n)
	}

	// ---- Lookup probes
	// The in-memory reader is asked for every present key and for every
	// absent key proposed for every gap.  The streaming reader re-reads up to
	// 64 sibling nodes per level and call (about 1 ms per call in a 5000-key
	// tree), so for maps above 130 keys (more than two leaves) it is asked
	// for: the first and last key of every leaf (where routing by /Limits
	// decides) and a stride over the remaining keys; the least and the
	// greatest absent key proposed for every gap between two leaves (only one
	// of them, alternating, above 1000 keys), all proposals below the minimum
	// and above the maximum, and one absent key in a stride over the
	// remaining gaps.
	full := n <= 130
	stride := 1
	if !full {
		stride = n/60 + 1
	}
	lookup := func(t reader[K], name string, k K, want pdf.Object, present bool) error {
		got, err := t.Lookup(k)
		if present {
			if err != nil {
				return fmt.Errorf("%s.Lookup(%s) failed for a present key: %v", name, a.show(k), err)
			}
			if err := vt.EqObj(want, got); err != nil {
				return fmt.Errorf("%s.Lookup(%s) returned a wrong value: %v", name, a.show(k), err)
			}
			return nil
		}
		if err == nil {
			return fmt.Errorf("%s.Lookup(%s) found %s for an absent key", name, a.show(k), vt.Show(got))
		}
		if !errors.Is(err, a.notFound) {
			return fmt.Errorf("%s.Lookup(%s) for an absent key failed with %v, want ErrKeyNotFound", name, a.show(k), err)
		}
		return nil
	}
	boundary := func(i int) bool { // entry i is first or last of its leaf
		if i < 0 || i >= n {
			return true
		}
		return leafEnd[i] || i == 0 || leafEnd[i-1]
	}
	for i, k := range keys {
		if err := lookup(im, "ExtractInMemory", k, vals[i], true); err != nil {
			return err
		}
		c.obs.probesMem++
		if full || boundary(i) || i%stride == 0 {
			if err := lookup(ff, "ExtractFromFile", k, vals[i], true); err != nil {
				return err
			}
			c.obs.probesFile++
		}
	}
	for i := -1; i < n; i++ {
		j := i + 1
		cands := a.gap(keys, i, j)
		// keep only keys which really are absent and inside the gap, judged
		// by the model's order
		var absent []K
		for _, k := range cands {
			if i >= 0 && !a.less(keys[i], k) {
				continue
			}
			if j < n && !a.less(k, keys[j]) {
				continue
			}
			absent = append(absent, k)
		}
		if len(absent) == 0 {
			if i >= 0 && j < n {
				c.obs.emptyGaps++
			}
			continue
		}
		c.obs.gapProbes++
		between := i >= 0 && j < n && leafEnd[i]
		if between {
			c.obs.betweenLeaves++
		}
		outer := i < 0 || j >= n
		for x, k := range absent {
			if err := lookup(im, "ExtractInMemory", k, nil, false); err != nil {
				return err
			}
			c.obs.probesMem++
			ask := full || outer
			if !ask && between {
				first, last := x == 0, x == len(absent)-1
				if n > 1000 && len(absent) > 1 {
					if i%2 == 0 {
						last = false
					} else {
						first = false
					}
				}
				ask = first || last
			}
			if !ask && x == 0 {
				ask = i%stride == 0
			}
			if ask {
				if err := lookup(ff, "ExtractFromFile", k, nil, false); err != nil {
					return err
				}
				c.obs.probesFile++
			}
		}
	}
	return nil
}

// ---------------------------------------------------------------------------
// structural validator (own code over raw dictionaries)

type validator[K comparable] struct {
	a    api[K]
	r    *pdf.Reader
	seen map[pdf.Reference]bool

	keys     []K
	vals     []pdf.Object
	leafEnd  []bool
	maxDepth int
}

// node validates the node at ref and returns the least and greatest key
// below it.
func (v *validator[K]) node(ref pdf.Reference, isRoot bool, depth int) (lo, hi K, err error) {
	if depth > v.maxDepth {
		v.maxDepth = depth
	}
	if depth > 32 {
		return lo, hi, fmt.Errorf("tree deeper than 32 levels at %v", ref)
	}
	if v.seen[ref] {
		return lo, hi, fmt.Errorf("node %v is reachable twice", ref)
	}
	v.seen[ref] = true
	obj, err := v.r.Get(ref, true)
	if err != nil {
		return lo, hi, fmt.Errorf("cannot read node %v: %v", ref, err)
	}
	node, ok := obj.(pdf.Dict)
	if !ok {
		return lo, hi, fmt.Errorf("node %v is %T, not a dictionary", ref, obj)
	}
	kidsObj, hasKids := node["Kids"]
	leafObj, hasLeaf := node[v.a.leafKey]
	if hasKids == hasLeaf {
		return lo, hi, fmt.Errorf("node %v must have exactly one of /Kids and /%s (has Kids: %v, has %s: %v)",
			ref, v.a.leafKey, hasKids, v.a.leafKey, hasLeaf)
	}

	if hasLeaf {
		leafObj, err = pdf.Resolve(v.r, leafObj)
		if err != nil {
			return lo, hi, fmt.Errorf("leaf %v: /%s: %v", ref, v.a.leafKey, err)
		}
		arr, ok := leafObj.(pdf.Array)
		if !ok {
			return lo, hi, fmt.Errorf("leaf %v: /%s is %T, not an array", ref, v.a.leafKey, leafObj)
		}
		if len(arr)%2 != 0 || len(arr) == 0 {
			return lo, hi, fmt.Errorf("leaf %v: /%s has %d elements, want a non-empty list of pairs", ref, v.a.leafKey, len(arr))
		}
		if len(arr)/2 > maxFan {
			return lo, hi, fmt.Errorf("leaf %v holds %d entries, the bound is %d", ref, len(arr)/2, maxFan)
		}
		for i := 0; i < len(arr); i += 2 {
			k, ok := v.a.rawKey(arr[i])
			if !ok {
				return lo, hi, fmt.Errorf("leaf %v: key %d is %s, wrong type", ref, i/2, vt.Show(arr[i]))
			}
			if len(v.keys) > 0 && !v.a.less(v.keys[len(v.keys)-1], k) {
				return lo, hi, fmt.Errorf("leaf %v: key %s follows %s, keys are not strictly ascending",
					ref, v.a.show(k), v.a.show(v.keys[len(v.keys)-1]))
			}
			if i == 0 {
				lo = k
			}
			hi = k
			v.keys = append(v.keys, k)
			v.vals = append(v.vals, arr[i+1])
			v.leafEnd = append(v.leafEnd, false)
		}
		v.leafEnd[len(v.leafEnd)-1] = true
	} else {
		kidsObj, err = pdf.Resolve(v.r, kidsObj)
		if err != nil {
			return lo, hi, fmt.Errorf("node %v: /Kids: %v", ref, err)
		}
		arr, ok := kidsObj.(pdf.Array)
		if !ok {
			return lo, hi, fmt.Errorf("node %v: /Kids is %T, not an array", ref, kidsObj)
		}
		if len(arr) == 0 {
			return lo, hi, fmt.Errorf("node %v: /Kids is empty", ref)
		}
		if len(arr) > maxFan {
			return lo, hi, fmt.Errorf("node %v has %d kids, the bound is %d", ref, len(arr), maxFan)
		}
		for i, kid := range arr {
			kref, ok := kid.(pdf.Reference)
			if !ok {
				return lo, hi, fmt.Errorf("node %v: kid %d is %T, not an indirect reference", ref, i, kid)
			}
			klo, khi, err := v.node(kref, false, depth+1)
			if err != nil {
				return lo, hi, err
			}
			if i == 0 {
				lo = klo
			}
			hi = khi
		}
	}

	limObj, hasLimits := node["Limits"]
	if isRoot {
		if hasLimits {
			return lo, hi, fmt.Errorf("root node %v carries /Limits %s", ref, pdf.AsString(limObj))
		}
		return lo, hi, nil
	}
	if !hasLimits {
		return lo, hi, fmt.Errorf("non-root node %v has no /Limits", ref)
	}
	limObj, err = pdf.Resolve(v.r, limObj)
	if err != nil {
		return lo, hi, fmt.Errorf("node %v: /Limits: %v", ref, err)
	}
	lim, ok := limObj.(pdf.Array)
	if !ok || len(lim) != 2 {
		return lo, hi, fmt.Errorf("node %v: /Limits is %s, want an array of two keys", ref, pdf.AsString(limObj))
	}
	l0, ok0 := v.a.rawKey(lim[0])
	l1, ok1 := v.a.rawKey(lim[1])
	if !ok0 || !ok1 {
		return lo, hi, fmt.Errorf("node %v: /Limits %s has keys of the wrong type", ref, pdf.AsString(limObj))
	}
	if l0 != lo || l1 != hi {
		return lo, hi, fmt.Errorf("node %v: /Limits is [%s %s], the least and greatest keys below it are [%s %s]",
			ref, v.a.show(l0), v.a.show(l1), v.a.show(lo), v.a.show(hi))
	}
	return lo, hi, nil
}

// ---------------------------------------------------------------------------
// helpers shared by the expanders

func sortBytes(keys [][]byte) {
	sort.Slice(keys, func(i, j int) bool { return bytes.Compare(keys[i], keys[j]) < 0 })
}
