package c17

import (
	"errors"
	"fmt"
	"iter"
	"testing"

	"pgregory.net/rapid"
	"seehuhn.de/go/pdf"
	"seehuhn.de/go/pdf/verif/internal/gen"
	"seehuhn.de/go/pdf/verif/internal/vt"
)

// Interleave describes interleaved use of one streaming reader object.  The
// property demands that the tree "enumerates all entries once in ascending
// key order" and "returns on lookup exactly the stored value"; neither is
// conditional on the reader being used for one thing at a time (all calls
// happen on one goroutine, nothing here is concurrent).
type Interleave struct {
	// LookupEvery: inside a running All, after every LookupEvery-th yield
	// (raised so that at most ~40 bursts happen) Lookup is called for the
	// entries at the relative positions Offsets (0: the current key; negative:
	// behind; positive: ahead) and for an absent key next to each of them.
	LookupEvery int   `json:"lookup_every"`
	Offsets     []int `json:"offsets"`
	// Iters (2 or 3) All enumerations of the same reader are advanced
	// alternately with iter.Pull2, Schedule[step % len] names the one which
	// moves at each step (a finished one passes its turn to the next).
	Iters    int   `json:"iters"`
	Schedule []int `json:"schedule"`
	// ShareSeq pulls all enumerations from one iter.Seq2 value instead of one
	// All() call each.
	ShareSeq bool `json:"share_seq"`
	// AbandonAfter > 0 stops enumeration 0 after that many entries while the
	// others continue.
	AbandonAfter int `json:"abandon_after"`
}

func interleaveStep[K comparable](c *Case, a api[K], r *pdf.Reader, root pdf.Reference, keys []K, vals []pdf.Object) error {
	il := c.Interleave
	n := len(keys)
	ff, err := a.fromFile(r, root)
	if err != nil {
		return fmt.Errorf("interleaved: ExtractFromFile failed: %v", err)
	}

	absentNear := func(j int) (K, bool) {
		for _, k := range a.gap(keys, j, j+1) {
			if !a.less(keys[j], k) {
				continue
			}
			if j+1 < n && !a.less(k, keys[j+1]) {
				continue
			}
			return k, true
		}
		var zero K
		return zero, false
	}

	// ---- (a) lookups while an enumeration is running
	every := il.LookupEvery
	if every < 1 {
		every = 1
	}
	if m := n/40 + 1; every < m {
		every = m
	}
	i := 0
	for k, val := range ff.All() {
		if i >= n {
			return fmt.Errorf("interleaved: All with lookups inside yields more than the %d entries (extra key %s)", n, a.show(k))
		}
		if k != keys[i] {
			return fmt.Errorf("interleaved: All with lookups inside: entry %d has key %s, want %s", i, a.show(k), a.show(keys[i]))
		}
		if err := vt.EqObj(vals[i], val); err != nil {
			return fmt.Errorf("interleaved: All with lookups inside: value of key %s: %v", a.show(k), err)
		}
		if i%every == 0 {
			for _, off := range il.Offsets {
				j := i + off
				if j < 0 || j >= n {
					continue
				}
				got, err := ff.Lookup(keys[j])
				if err != nil {
					return fmt.Errorf("interleaved: Lookup(%s) (entry %d) inside All at entry %d failed: %v", a.show(keys[j]), j, i, err)
				}
				if err := vt.EqObj(vals[j], got); err != nil {
					return fmt.Errorf("interleaved: Lookup(%s) inside All at entry %d returned a wrong value: %v", a.show(keys[j]), i, err)
				}
				c.obs.ilLookups++
				if ak, ok := absentNear(j); ok {
					if got, err := ff.Lookup(ak); err == nil || !errors.Is(err, a.notFound) {
						return fmt.Errorf("interleaved: Lookup(%s) for an absent key inside All at entry %d returned %s, %v", a.show(ak), i, vt.Show(got), err)
					}
					c.obs.ilLookups++
				}
			}
		}
		i++
	}
	if i != n {
		return fmt.Errorf("interleaved: All with %d lookups issued inside it yielded %d entries, the map has %d", c.obs.ilLookups, i, n)
	}

	// ---- (b), (c) several enumerations of the same reader in lockstep
	iters := il.Iters
	if iters < 2 {
		iters = 2
	}
	if iters > 3 {
		iters = 3
	}
	type puller struct {
		next func() (K, pdf.Object, bool)
		stop func()
		pos  int
		want int
		done bool
	}
	shared := ff.All()
	ps := make([]*puller, iters)
	for x := range ps {
		var seq iter.Seq2[K, pdf.Object] = shared
		if !il.ShareSeq {
			seq = ff.All()
		}
		next, stop := iter.Pull2(seq)
		ps[x] = &puller{next: next, stop: stop, want: n}
	}
	defer func() {
		for _, p := range ps {
			p.stop()
		}
	}()
	if il.AbandonAfter > 0 && il.AbandonAfter < n {
		ps[0].want = il.AbandonAfter
		c.obs.ilAbandoned = true
	}
	sched := il.Schedule
	if len(sched) == 0 {
		sched = []int{0, 1, 2}
	}
	for step, left := 0, iters; left > 0; step++ {
		x := mod(sched[step%len(sched)], iters)
		for ps[x].done {
			x = (x + 1) % iters
		}
		p := ps[x]
		if p.pos >= p.want && p.want < n {
			// abandoned early while the others continue
			p.stop()
			p.done = true
			left--
			continue
		}
		k, val, ok := p.next()
		if !ok {
			if p.pos != n {
				return fmt.Errorf("interleaved: enumeration %d of %d advanced in lockstep ended after %d entries, the map has %d", x, iters, p.pos, n)
			}
			p.done = true
			left--
			continue
		}
		if p.pos >= n {
			return fmt.Errorf("interleaved: enumeration %d of %d in lockstep yields more than %d entries (extra key %s)", x, iters, n, a.show(k))
		}
		if k != keys[p.pos] {
			return fmt.Errorf("interleaved: enumeration %d of %d in lockstep: entry %d has key %s, want %s", x, iters, p.pos, a.show(k), a.show(keys[p.pos]))
		}
		if err := vt.EqObj(vals[p.pos], val); err != nil {
			return fmt.Errorf("interleaved: enumeration %d of %d in lockstep: value of key %s: %v", x, iters, a.show(k), err)
		}
		p.pos++
	}
	c.obs.ilLockstep = iters
	return nil
}

// ---------------------------------------------------------------------------
// generator and job

func genInterleaved(t *rapid.T) Case {
	var c Case
	c.Tree = rapid.SampledFrom([]string{"name", "num"}).Draw(t, "tree")
	switch k := rapid.IntRange(0, 19).Draw(t, "sizeclass"); {
	case k < 4:
		c.N = rapid.SampledFrom([]int{1, 63, 64, 65, 66, 128, 129, 130}).Draw(t, "n")
	case k < 4+vt.Scale(0, 1):
		c.N = rapid.SampledFrom([]int{4096, 4097, 4200, 5000}).Draw(t, "n")
	case k < 8:
		c.N = rapid.IntRange(400, 1000).Draw(t, "n")
	default:
		c.N = rapid.IntRange(65, 400).Draw(t, "n")
	}
	c.Style = rapid.IntRange(0, 4).Draw(t, "style")
	c.Seed = rapid.Uint64().Draw(t, "seed")
	c.Pool = []gen.O{gen.Obj(gen.ObjOpts{MaxDepth: 1, NoNil: true, MaxStr: 30, MaxName: 30, MaxWidth: 2}).Draw(t, "value")}
	c.Version = rapid.SampledFrom([]int{0, 0, 1, 2}).Draw(t, "version")
	il := &Interleave{
		LookupEvery:  rapid.IntRange(1, 9).Draw(t, "every"),
		Iters:        rapid.IntRange(2, 3).Draw(t, "iters"),
		ShareSeq:     rapid.Bool().Draw(t, "shareseq"),
		AbandonAfter: rapid.SampledFrom([]int{0, 0, 1, 63, 64, 65, 100, 129}).Draw(t, "abandon"),
	}
	for k := rapid.IntRange(1, 4).Draw(t, "noffsets"); k > 0; k-- {
		il.Offsets = append(il.Offsets, rapid.SampledFrom([]int{0, 0, 1, -1, 63, 64, 65, -64, -65, 130, -130, 300, -300, 4096, -4096}).Draw(t, "offset"))
	}
	for k := rapid.IntRange(1, 12).Draw(t, "nsched"); k > 0; k-- {
		il.Schedule = append(il.Schedule, rapid.IntRange(0, 2).Draw(t, "turn"))
	}
	c.Interleave = il
	return c
}

// interProp shares kind and check with treeProp (which is the registered
// replayer for the kind).
var interProp = &vt.Prop[Case]{
	Property: property,
	Kind:     "c17-tree",
	Gen:      genInterleaved,
	Check:    checkCase,
	Classify: classify,
	Render:   render,
}

func TestInterleaved(t *testing.T) { interProp.Run(t, vt.NewStats(property, "interleaved")) }
