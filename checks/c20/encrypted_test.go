package c20

import (
	"bytes"
	"fmt"
	"testing"

	"pgregory.net/rapid"

	"seehuhn.de/go/pdf"
	"seehuhn.de/go/pdf/verif/internal/vt"
	"seehuhn.de/go/pdf/verif/internal/wprog"
)

// Encrypted documents whose cross-reference data has been overwritten: the
// sequential scan finds the objects, and the Reader made from it (with the
// password) returns the values that were written, strings and streams
// decrypted, the document metadata included (which is plaintext in the file
// when the writer was told so).  The truncation part of the property is
// judged on unencrypted documents (the scan lists raw objects); here only
// MakeReader is judged.

// EncCase is an encrypted write program.
type EncCase struct {
	Prog wprog.Program `json:"prog"`

	damages int
	fileLen int
}

func checkEncrypted(c *EncCase) error {
	p := &c.Prog
	res := p.Run(p.NewSink())
	if res.WriterErr != nil {
		return fmt.Errorf("fault-free write failed at %s: %v", res.ErrAt, res.WriterErr)
	}
	data := res.Data
	c.fileLen = len(data)
	_, f, err := locate(data)
	if err != nil {
		return err
	}
	// the intact file, as the reference for what "the value written" reads as
	for _, pw := range p.Passwords() {
		if err := wprog.VerifyRead(p, res, data, pw); err != nil {
			return fmt.Errorf("intact file: %v", err)
		}
	}
	for _, dm := range xrefDamages(data, f) {
		if !dm.makeReader {
			continue
		}
		c.damages++
		label := "damage: " + dm.name
		fi, err := pdf.SequentialScan(bytes.NewReader(dm.data), int64(len(dm.data)))
		if err != nil {
			return fmt.Errorf("%s: SequentialScan fails outright: %v", label, err)
		}
		for _, pw := range p.Passwords() {
			r, err := fi.MakeReader(&pdf.ReaderOptions{Password: pw})
			if err != nil {
				return fmt.Errorf("%s: MakeReader(password %q) fails although the catalog and the trailer dictionary are intact: %v", label, pw, err)
			}
			if err := wprog.VerifyGetter(p, res, r); err != nil {
				return fmt.Errorf("%s: recovered reader (password %q): %v", label, pw, err)
			}
		}
	}
	return nil
}

var encProp = &vt.Prop[EncCase]{
	Property: property,
	Kind:     "c20-encrypted",
	Gen: func(t *rapid.T) EncCase {
		p := wprog.Gen(wprog.Opts{MaxActions: 5, MaxData: 1500, SmallObjects: true, MaxDelta: 100,
			NoCompressed: true, ForbidHeaders: true}).Draw(t, "prog")
		if !p.Encrypted() {
			if p.Version == 0 {
				p.Version = rapid.IntRange(1, 8).Draw(t, "version2")
				if p.Version == 8 {
					p.ID = nil
				}
			}
			switch rapid.IntRange(0, 2).Draw(t, "enc2") {
			case 0:
				p.UserPW = "user"
			case 1:
				p.OwnerPW = "owner"
			default:
				p.UserPW, p.OwnerPW = "secret", "god"
			}
			p.Perm = uint32(pdf.PermAll)
			for i := range p.Actions {
				p.Actions[i].GiveLen = false // a caller-supplied /Length is only generated for unencrypted files
			}
		}
		if p.Version >= 4 && p.MetaTitle == "" && rapid.Bool().Draw(t, "meta") {
			p.MetaTitle = "A title in the metadata stream"
		}
		p.MetaPlain = p.MetaTitle != "" && p.Version >= 6 && rapid.Bool().Draw(t, "plainmeta")
		p.ScrubNames()
		return EncCase{Prog: p}
	},
	Check: checkEncrypted,
	Classify: func(c *EncCase) (bool, []string) {
		cls := c.Prog.Classes(nil)
		if c.Prog.MetaTitle != "" {
			if c.Prog.MetaPlain {
				cls = append(cls, "metadata:plaintext-in-encrypted-file")
			} else {
				cls = append(cls, "metadata:encrypted")
			}
		}
		return c.damages >= 1, cls
	},
	Render: func(c *EncCase) any {
		return map[string]any{"version": wprog.Versions[c.Prog.Version].String(), "cipher": c.Prog.Cipher(),
			"file_bytes": c.fileLen, "damages_with_MakeReader": c.damages, "metadata_plaintext": c.Prog.MetaPlain}
	},
}

func init() { vt.Register(encProp) }

func TestEncrypted(t *testing.T) { encProp.Run(t, vt.NewStats(property, "encrypted")) }
