// Package c20 checks property C20: a truncated or xref-damaged file still
// gives up every object that was completely written.
package c20

import (
	"bytes"
	"fmt"
	"io"
	"sort"
	"sync"
	"testing"

	"pgregory.net/rapid"
	"seehuhn.de/go/pdf"
	"seehuhn.de/go/pdf/verif/internal/gen"
	"seehuhn.de/go/pdf/verif/internal/indep/bridge"
	"seehuhn.de/go/pdf/verif/internal/indep/strict"
	"seehuhn.de/go/pdf/verif/internal/vt"
	"seehuhn.de/go/pdf/verif/internal/wprog"
)

func TestMain(m *testing.M) { vt.Main(m) }

const property = "C20"

// Case is a document; every prefix and every single xref damage of the file
// it produces is examined.
type Case struct {
	Prog wprog.Program `json:"prog"`

	fileLen, nobj, cuts, damages int
	maxNum                       uint32
	xrefKind                     string
}

// expected describes one object of the intact file, as located by the
// independent parser.
type expected struct {
	ref      pdf.Reference
	off, end int
	obj      *strict.Object
}

func locate(data []byte) ([]expected, *strict.File, error) {
	f, err := strict.Parse(data)
	if err != nil {
		return nil, nil, fmt.Errorf("independent parser rejects the intact file: %v", err)
	}
	var exp []expected
	for _, num := range f.Nums() {
		o := f.Objects[num]
		if o.InObjStm != 0 {
			return nil, nil, fmt.Errorf("object %d is inside an object stream: outside the domain of C20", num)
		}
		exp = append(exp, expected{ref: pdf.NewReference(o.Num, o.Gen), off: o.Offset, end: o.End, obj: o})
	}
	sort.Slice(exp, func(i, j int) bool { return exp[i].off < exp[j].off })
	return exp, f, nil
}

// checkListed verifies that the scan lists e at its true offset, not broken,
// and that reading it gives the value of the intact file.
func checkListed(fi *pdf.FileInfo, index map[pdf.Reference]*pdf.FileObject, e expected, label string) error {
	fo := index[e.ref]
	if fo == nil {
		return fmt.Errorf("%s: object %s (bytes %d..%d) is complete but not listed", label, e.ref, e.off, e.end)
	}
	if fo.ObjStart != int64(e.off) {
		return fmt.Errorf("%s: object %s listed at offset %d, true offset %d", label, e.ref, fo.ObjStart, e.off)
	}
	if fo.Broken {
		return fmt.Errorf("%s: object %s (bytes %d..%d) is complete but marked broken", label, e.ref, e.off, e.end)
	}
	got, err := fi.Read(fo)
	if err != nil {
		return fmt.Errorf("%s: reading object %s failed: %v", label, e.ref, err)
	}
	if !e.obj.IsStream {
		if _, isStm := got.(*pdf.Stream); isStm {
			return fmt.Errorf("%s: object %s read as a stream", label, e.ref)
		}
		if err := vt.EqObj(bridge.ToPDF(e.obj.Value), got); err != nil {
			return fmt.Errorf("%s: object %s: %v", label, e.ref, err)
		}
		return nil
	}
	stm, ok := got.(*pdf.Stream)
	if !ok {
		return fmt.Errorf("%s: object %s is a stream but read as %s", label, e.ref, vt.Show(got))
	}
	wantDict := bridge.ToPDF(e.obj.StreamDict.Without("Length"))
	haveDict := pdf.Dict{}
	for k, v := range stm.Dict {
		if k != "Length" {
			haveDict[k] = v
		}
	}
	if err := vt.EqObj(wantDict, haveDict); err != nil {
		return fmt.Errorf("%s: stream %s dictionary: %v", label, e.ref, err)
	}
	raw, err := io.ReadAll(stm.NewReader())
	if err != nil {
		return fmt.Errorf("%s: stream %s raw data: %v", label, e.ref, err)
	}
	if !bytes.Equal(raw, e.obj.RawStream) {
		return fmt.Errorf("%s: stream %s: raw data has %d bytes, written %d bytes (or content differs)", label, e.ref, len(raw), len(e.obj.RawStream))
	}
	return nil
}

func scanIndex(fi *pdf.FileInfo) map[pdf.Reference]*pdf.FileObject {
	index := map[pdf.Reference]*pdf.FileObject{}
	for _, sec := range fi.Sections {
		for _, o := range sec.Objects {
			// the last definition wins, as in the library's own index
			index[o.Reference] = o
		}
	}
	return index
}

func checkCase(c *Case) error {
	p := &c.Prog
	res := p.Run(p.NewSink())
	if res.WriterErr != nil {
		return fmt.Errorf("fault-free write failed at %s: %v", res.ErrAt, res.WriterErr)
	}
	data := res.Data
	exp, f, err := locate(data)
	if err != nil {
		return err
	}
	c.fileLen, c.nobj, c.xrefKind = len(data), len(exp), f.XRefKind
	for _, e := range exp {
		if e.ref.Number() > c.maxNum {
			c.maxNum = e.ref.Number()
		}
	}

	// ---- every truncation offset ----
	// The cuts are independent of each other; they are spread over a few
	// goroutines and the failure with the smallest offset is reported, so the
	// outcome does not depend on scheduling.
	checkCut := func(L int) error {
		prefix := data[:L]
		complete := 0
		for _, e := range exp {
			if e.end <= L {
				complete++
			}
		}
		fi, err := pdf.SequentialScan(bytes.NewReader(prefix), int64(L))
		label := fmt.Sprintf("prefix of %d/%d bytes (%d complete objects)", L, len(data), complete)
		if complete == 0 {
			return nil // any outcome is acceptable
		}
		if err != nil {
			return fmt.Errorf("%s: SequentialScan fails outright: %v", label, err)
		}
		index := scanIndex(fi)
		for _, e := range exp {
			if e.end > L {
				continue
			}
			if !lengthAvailable(e, exp, L) {
				continue
			}
			if err := checkListed(fi, index, e, label); err != nil {
				return err
			}
		}
		// The same crash seen through a byte source which still holds the
		// later bytes (a pre-allocated file, a device): the available bytes
		// are the first L.  The statement's demands apply unchanged, and an
		// object which by the scan's own account ends beyond the available
		// bytes is incomplete, so it must be reported as broken.  (Equality
		// of the two scans is NOT demanded: the unchanged library verifies a
		// declared /Length against bytes beyond the stated size, which can
		// turn an object that merely looks complete in the prefix into a
		// broken one.)
		if L%4 == 1 || L+64 >= len(data) {
			label2 := fmt.Sprintf("%s, read from a source which holds all %d bytes", label, len(data))
			fi2, err2 := pdf.SequentialScan(bytes.NewReader(data), int64(L))
			if err2 != nil {
				return fmt.Errorf("%s: SequentialScan fails outright: %v", label2, err2)
			}
			for _, sec := range fi2.Sections {
				for _, o := range sec.Objects {
					if !o.Broken && o.ObjEnd > int64(L) {
						return fmt.Errorf("%s: object %s (bytes %d..%d) extends beyond the available bytes but is not reported as broken", label2, o.Reference, o.ObjStart, o.ObjEnd)
					}
				}
			}
			index2 := scanIndex(fi2)
			for _, e := range exp {
				if e.end > L || !lengthAvailable(e, exp, L) {
					continue
				}
				if err := checkListed(fi2, index2, e, label2); err != nil {
					return err
				}
			}
		}
		return nil
	}
	const workers = 4
	errs := make([]error, workers)
	errAt := make([]int, workers)
	var wg sync.WaitGroup
	for w := 0; w < workers; w++ {
		wg.Add(1)
		go func(w int) {
			defer wg.Done()
			for L := w; L <= len(data); L += workers {
				err := vt.Guard(func() error { return checkCut(L) })
				if err != nil {
					errs[w], errAt[w] = err, L
					return
				}
			}
		}(w)
	}
	wg.Wait()
	c.cuts += len(data) + 1
	best := -1
	for w := range errs {
		if errs[w] != nil && (best < 0 || errAt[w] < errAt[best]) {
			best = w
		}
	}
	if best >= 0 {
		return errs[best]
	}

	// ---- single-section xref damage ----
	damages := xrefDamages(data, f)
	for _, dm := range damages {
		c.damages++
		label := "damage: " + dm.name
		fi, err := pdf.SequentialScan(bytes.NewReader(dm.data), int64(len(dm.data)))
		if err != nil {
			return fmt.Errorf("%s: SequentialScan fails outright: %v", label, err)
		}
		index := scanIndex(fi)
		damagedObj := uint32(0)
		if f.XRefKind == "stream" && dm.name == "xref stream data overwritten" {
			damagedObj = f.Sections[0].StreamNum
		}
		for _, e := range exp {
			if e.ref.Number() == damagedObj {
				continue // its own data was overwritten on purpose
			}
			if err := checkListed(fi, index, e, label); err != nil {
				return err
			}
		}
		if !dm.makeReader {
			continue
		}
		r, err := fi.MakeReader(nil)
		if err != nil {
			return fmt.Errorf("%s: MakeReader fails although the catalog and the trailer dictionary are intact: %v", label, err)
		}
		for _, e := range res.Entries {
			got, err := r.Get(e.Ref, true)
			if err != nil {
				return fmt.Errorf("%s: Get(%s) on the recovered reader failed: %v", label, e.Ref, err)
			}
			if err := wprog.CompareEntry(r, e, got); err != nil {
				return fmt.Errorf("%s: recovered reader: %v", label, err)
			}
		}
	}
	return nil
}

type damage struct {
	name       string
	data       []byte
	makeReader bool
}

// xrefDamages returns copies of data in which one part of the
// cross-reference information has been overwritten.
func xrefDamages(data []byte, f *strict.File) []damage {
	var damages []damage
	junk := func(lo, hi int, name string, mr bool) {
		if lo < 0 || hi > len(data) || lo >= hi {
			return
		}
		d := append([]byte{}, data...)
		for i := lo; i < hi; i++ {
			d[i] = "#junk!"[i%6]
		}
		damages = append(damages, damage{name, d, mr})
	}
	if f.XRefKind == "table" {
		// the entries of the table (keep the keyword line out of it: the
		// keyword itself is the next damage)
		junk(f.XRef[0]+5, f.XRef[1]-2, "xref table entries overwritten (final EOL kept)", true)
		junk(f.XRef[0], f.XRef[0]+4, "xref keyword overwritten", true)
		junk(f.TrailerKeyword[0], f.TrailerKeyword[1], "trailer keyword overwritten", false)
	} else {
		xo := f.Objects[f.Sections[0].StreamNum]
		if xo != nil && xo.IsStream {
			junk(xo.StreamStart, xo.StreamStart+len(xo.RawStream), "xref stream data overwritten", true)
		}
	}
	// startxref offset replaced by another number of the same length
	{
		d := append([]byte{}, data...)
		i := f.StartXRef + len("startxref")
		for i < len(d) && (d[i] < '0' || d[i] > '9') {
			i++
		}
		for i < len(d) && d[i] >= '0' && d[i] <= '9' {
			d[i] = '9' - (d[i] - '0')
			i++
		}
		damages = append(damages, damage{"startxref offset replaced", d, true})
	}
	return damages
}

// lengthAvailable reports whether the /Length of a stream object can be known
// from the first L bytes: it is direct, or the integer object it refers to is
// complete within the prefix.  When it is not, the stream extent can only be
// guessed from the data, which is ambiguous for bodies that contain
// EOL+"endstream" or end in an EOL byte; such objects are then not asserted
// (they are still required not to abort the scan).
func lengthAvailable(e expected, all []expected, L int) bool {
	if !e.obj.IsStream {
		return true
	}
	l, ok := e.obj.StreamDict.Get("Length")
	if !ok {
		return false
	}
	if l.Kind != 8 { // syntax.Ref
		return true
	}
	for _, o := range all {
		if o.ref.Number() == l.Num {
			if o.end <= L {
				return true
			}
			// unknown length: fine as long as the body is unambiguous
			raw := e.obj.RawStream
			if bytes.Contains(raw, []byte("endstream")) {
				return false
			}
			if n := len(raw); n > 0 && (raw[n-1] == '\n' || raw[n-1] == '\r') {
				return false
			}
			return true
		}
	}
	return false
}

var _ = gen.Hex(nil)

var prop = &vt.Prop[Case]{
	Property: property,
	Kind:     "c20-document",
	Gen: func(t *rapid.T) Case {
		c := Case{Prog: wprog.Gen(wprog.Opts{MaxActions: 6, MaxData: vt.Scale(1100, 2500), SmallObjects: true, MaxDelta: 100,
			NoEncryption: true, NoCompressed: true, ForbidHeaders: true}).Draw(t, "prog")}
		c.Prog.ScrubNames()
		// Object numbers >= 65536: cheap with a cross-reference stream (the
		// free rows compress away), and the sequential scan does not depend on
		// the reader's cross-reference budget (known finding
		// C02-sparse-xref-stream concerns NewReader only).
		if c.Prog.Version >= 5 && !c.Prog.HumanReadable && rapid.IntRange(0, 3).Draw(t, "high") == 0 {
			for i := range c.Prog.Actions {
				a := &c.Prog.Actions[i]
				if a.Op == "put" || a.Op == "stream" || a.Op == "putstream" {
					a.RefKind = "explicit"
					a.Delta = rapid.SampledFrom([]uint32{65500, 66000, 70000}).Draw(t, "highdelta")
					break
				}
			}
		}
		return c
	},
	Check: checkCase,
	Classify: func(c *Case) (bool, []string) {
		cls := c.Prog.Classes(nil)
		cls = append(cls, "xref:"+c.xrefKind)
		if c.maxNum >= 65536 {
			cls = append(cls, "object-number>=65536")
		}
		return c.nobj >= 4 && c.fileLen >= 400, cls
	},
	Render: func(c *Case) any {
		return map[string]any{"version": wprog.Versions[c.Prog.Version].String(), "human": c.Prog.HumanReadable,
			"seekable": c.Prog.Seekable, "actions": len(c.Prog.Actions), "file_bytes": c.fileLen, "objects": c.nobj,
			"truncations_checked": c.cuts, "damages_checked": c.damages, "xref": c.xrefKind}
	},
}

func init() { vt.Register(prop) }

func TestRandom(t *testing.T) { prop.Run(t, vt.NewStats(property, "documents")) }

func TestReplay(t *testing.T) { vt.RunReplay(t) }
