package c15

import (
	"bytes"
	"encoding/json"
	"fmt"
	"io"
	"math"
	"os"
	"path/filepath"
	"sort"
	"strconv"
	"sync"
	"testing"

	"pgregory.net/rapid"
	"seehuhn.de/go/pdf"
	"seehuhn.de/go/pdf/graphics/content"
	"seehuhn.de/go/pdf/page"
	"seehuhn.de/go/pdf/verif/internal/gen"
	"seehuhn.de/go/pdf/verif/internal/vt"
)

// ---------------------------------------------------------------------------
// the case

// Op is one operator.  The pseudo-operators use the names of the content
// package: "%raw%" with one string operand (a comment, including its '%'),
// "%image%" with a dictionary and a string operand (an inline image).
type Op struct {
	Name gen.Hex `json:"name"`
	Args []gen.O `json:"args,omitempty"`
}

// Case is an operator sequence, optionally cut into segments.
type Case struct {
	Ops []Op `json:"ops"`
	// Cuts are operator boundaries (0..len(Ops), ascending, may repeat) at
	// which the sequence is cut into len(Cuts)+1 segments.
	Cuts []int `json:"cuts,omitempty"`
	// Raw[i] says that segment i is handed over as a byte segment whose last
	// EOL is removed (a content stream need not end in white space) instead
	// of a *content.Operators value.
	Raw []bool `json:"raw,omitempty"`
	// Chunk > 0 reads the serialised stream, and feeds the scanner, in
	// pieces of at most Chunk bytes.
	Chunk int `json:"chunk,omitempty"`
	// StrictNilDict: see C01 (finding C01-nil-dict).
	StrictNilDict bool `json:"strict_nil_dict"`

	text []byte
}

const (
	nameRaw   = string(content.OpRawContent)
	nameImage = string(content.OpInlineImage)
)

// ---------------------------------------------------------------------------
// the domain

var isSpace = [256]bool{0: true, 9: true, 10: true, 12: true, 13: true, 32: true}

var isDelim = [256]bool{'(': true, ')': true, '<': true, '>': true, '[': true, ']': true,
	'{': true, '}': true, '/': true, '%': true}

func isRegular(b byte) bool { return !isSpace[b] && !isDelim[b] }

// isNumber reports whether tok has the syntax of a PDF number (7.3.3).
func isNumber(tok []byte) bool {
	i := 0
	if i < len(tok) && (tok[i] == '+' || tok[i] == '-') {
		i++
	}
	digits, dots := 0, 0
	for ; i < len(tok); i++ {
		switch {
		case tok[i] >= '0' && tok[i] <= '9':
			digits++
		case tok[i] == '.':
			dots++
		default:
			return false
		}
	}
	return digits > 0 && dots <= 1
}

// validOpName: regular characters only, not a number, not a keyword of the
// object syntax, not one of the inline-image framing operators.
func validOpName(name []byte) bool {
	if len(name) == 0 || len(name) > 4096 {
		return false
	}
	for _, b := range name {
		if !isRegular(b) {
			return false
		}
	}
	if isNumber(name) {
		return false
	}
	switch string(name) {
	case "true", "false", "null", "BI", "ID", "EI":
		return false
	}
	return true
}

// Limits which the scanner documents for inline images (stream.go).
const (
	maxInlineDim    = 65536
	maxInlinePixels = 256 * 1024
	maxInlineData   = 4096 // "maxInlineImageBytes = 4096 // spec recommendation for inline image data"
	// Without /L the scanner of the unchanged tree counts the end-of-line
	// before EI as data and stops one byte early: 4094 bytes is the most it
	// reads.  See findingNoLength.
	maxInlineDataNoL = 4094
)

// findingNoLength: an inline image without /L whose data is 4095 or 4096
// bytes long (inside the documented 4096-byte limit) is not read back.  The
// region is generated only once known_findings.json lists the id under
// "fixed" (or VERIF_IGNORE_FINDINGS is set); until then such data always
// gets an /L entry and the case is counted as excluded.
const findingNoLength = "C15-inline-nolength-4095"

var (
	noLengthOnce     sync.Once
	noLengthAsserted bool
)

func assertNoLengthBoundary() bool {
	noLengthOnce.Do(func() {
		if os.Getenv("VERIF_IGNORE_FINDINGS") != "" {
			noLengthAsserted = true
			return
		}
		b, err := os.ReadFile(filepath.Join(vt.Root(), "known_findings.json"))
		if err != nil {
			return
		}
		var doc struct {
			Fixed json.RawMessage `json:"fixed"`
		}
		if json.Unmarshal(b, &doc) == nil && bytes.Contains(doc.Fixed, []byte(findingNoLength)) {
			noLengthAsserted = true
		}
	})
	return noLengthAsserted
}

var asciiFilters = map[string]bool{"ASCIIHexDecode": true, "AHx": true, "ASCII85Decode": true, "A85": true}

// reservedImageKeys have a meaning for the framing of the image.
var reservedImageKeys = map[string]bool{"W": true, "Width": true, "H": true, "Height": true,
	"L": true, "Length": true, "F": true, "Filter": true}

// needsLength is the framing rule of the domain: data which contains an end
// of line, "EI" and then a non-regular byte (or the end of the data) cannot be
// delimited without a length.
func needsLength(data []byte) bool {
	for i := 0; i+2 < len(data); i++ {
		if (data[i] == '\n' || data[i] == '\r') && data[i+1] == 'E' && data[i+2] == 'I' {
			if i+3 == len(data) || !isRegular(data[i+3]) {
				return true
			}
		}
	}
	return false
}

func dictGet(d []gen.KV, keys ...string) (gen.O, bool) {
	for _, k := range keys {
		for _, kv := range d {
			if string(kv.K) == k {
				return kv.V, true
			}
		}
	}
	return gen.O{}, false
}

// usesASCIIFilter reports whether any filter of the image is an ASCII filter
// (ISO 32000-2, 8.9.7: "unless the image uses ASCIIHexDecode or ASCII85Decode
// as one of its filters, the ID operator shall be followed by a single
// white-space character").
func usesASCIIFilter(d []gen.KV) bool {
	f, ok := dictGet(d, "F", "Filter")
	if !ok {
		return false
	}
	if f.T == "name" {
		return asciiFilters[string(f.S)]
	}
	for _, e := range f.A {
		if e.T == "name" && asciiFilters[string(e.S)] {
			return true
		}
	}
	return false
}

func hasRef(o gen.O) bool {
	if o.T == "ref" {
		return true
	}
	for _, e := range o.A {
		if hasRef(e) {
			return true
		}
	}
	for _, kv := range o.D {
		if hasRef(kv.V) {
			return true
		}
	}
	return false
}

// inDomain checks that the case is one the content writer documents as
// valid and the statement quantifies over.  A failure here is a defect of the
// generator, not of the library.
func inDomain(c *Case) error {
	if len(c.Ops) > 40 {
		return fmt.Errorf("%d operators", len(c.Ops))
	}
	for i, op := range c.Ops {
		for _, a := range op.Args {
			if hasRef(a) {
				return fmt.Errorf("op %d: reference operand", i)
			}
		}
		switch string(op.Name) {
		case nameRaw:
			if len(op.Args) != 1 || op.Args[0].T != "str" {
				return fmt.Errorf("op %d: comment needs one string", i)
			}
			s := op.Args[0].S
			if len(s) == 0 || s[0] != '%' || len(s) > 4096 || bytes.ContainsAny(s, "\r\n") {
				return fmt.Errorf("op %d: not a one-line comment", i)
			}
		case nameImage:
			if len(op.Args) != 2 || op.Args[0].T != "dict" || op.Args[1].T != "str" {
				return fmt.Errorf("op %d: inline image needs dict and string", i)
			}
			d, data := op.Args[0].D, op.Args[1].S
			w, okw := dictGet(d, "W", "Width")
			h, okh := dictGet(d, "H", "Height")
			if !okw || !okh || w.T != "int" || h.T != "int" || w.I < 1 || h.I < 1 ||
				w.I > maxInlineDim || h.I > maxInlineDim || w.I*h.I > maxInlinePixels {
				return fmt.Errorf("op %d: image dimensions outside the documented limits", i)
			}
			if len(data) < 1 || len(data) > maxInlineData {
				return fmt.Errorf("op %d: %d bytes of image data", i, len(data))
			}
			l, okl := dictGet(d, "L", "Length")
			if okl && (l.T != "int" || l.I != int64(len(data))) {
				return fmt.Errorf("op %d: wrong /L", i)
			}
			if _, a := dictGet(d, "L"); a {
				if _, b := dictGet(d, "Length"); b {
					return fmt.Errorf("op %d: both L and Length", i)
				}
			}
			if !okl && needsLength(data) {
				return fmt.Errorf("op %d: data contains EOL+EI+delimiter but no /L", i)
			}
			if usesASCIIFilter(d) && isSpace[data[0]] {
				return fmt.Errorf("op %d: ASCII-filtered data starts with white space", i)
			}
		default:
			if !validOpName(op.Name) {
				return fmt.Errorf("op %d: invalid operator name %q", i, op.Name)
			}
			if len(op.Args) > 32 {
				return fmt.Errorf("op %d: %d operands", i, len(op.Args))
			}
		}
	}
	prev := 0
	for _, k := range c.Cuts {
		if k < prev || k > len(c.Ops) {
			return fmt.Errorf("bad cut %d", k)
		}
		prev = k
	}
	if len(c.Cuts) > 0 && len(c.Raw) != len(c.Cuts)+1 {
		return fmt.Errorf("raw flags do not match the cuts")
	}
	return nil
}

// ---------------------------------------------------------------------------
// generator

var tableOps = []string{"b", "B", "b*", "B*", "BDC", "BMC", "BT", "BX", "c", "cm", "CS", "cs",
	"d", "d0", "d1", "Do", "DP", "EMC", "ET", "EX", "f", "F", "f*", "G", "g", "gs", "h", "i",
	"j", "J", "K", "k", "l", "m", "M", "MP", "n", "q", "Q", "re", "RG", "rg", "ri", "s", "S",
	"SC", "sc", "SCN", "scn", "sh", "T*", "Tc", "Td", "TD", "Tf", "Tj", "TJ", "TL", "Tm", "Tr",
	"Ts", "Tw", "Tz", "v", "w", "W", "W*", "y", "'", "\""}

// regular characters an unknown operator name is made of
var nameAlphabet = []byte("abcdefgxyzABEIDTQR0123456789*'\"#+-._!@\\~^|&=?,;:$`\x01\x7f\x80\xff")

var (
	genOperand      = gen.Obj(gen.ObjOpts{MaxDepth: 3, NoRefs: true, MaxStr: 2000, MaxName: 300, MaxWidth: 4})
	genScalar       = gen.Obj(gen.ObjOpts{MaxDepth: -1, NoRefs: true, MaxStr: 2000, MaxName: 300})
	genImageValue   = gen.Obj(gen.ObjOpts{MaxDepth: 3, NoRefs: true, MaxStr: 200, MaxName: 60, MaxWidth: 3})
	genHostileBytes = gen.Bytes(40)
)

func drawUnknownName(t *rapid.T) []byte {
	n := rapid.IntRange(1, 12).Draw(t, "namelen")
	if rapid.IntRange(0, 39).Draw(t, "longname") == 0 {
		n = rapid.IntRange(13, 300).Draw(t, "namelen2")
	}
	name := make([]byte, n)
	if n > 16 {
		r := vt.NewRand(rapid.Uint64().Draw(t, "nameseed"))
		for i := range name {
			name[i] = nameAlphabet[r.Intn(len(nameAlphabet))]
		}
	} else {
		for i := range name {
			name[i] = rapid.SampledFrom(nameAlphabet).Draw(t, "c")
		}
	}
	if !validOpName(name) {
		name = append([]byte("x"), name...)
	}
	return name
}

func drawOperands(t *rapid.T) []gen.O {
	k := rapid.IntRange(0, 7).Draw(t, "nargs")
	if rapid.IntRange(0, 11).Draw(t, "many") == 0 {
		k = rapid.IntRange(8, 32).Draw(t, "nargs2")
	}
	args := make([]gen.O, k)
	for i := range args {
		if k > 8 || rapid.IntRange(0, 2).Draw(t, "scalar") > 0 {
			args[i] = genScalar.Draw(t, "arg")
		} else {
			args[i] = genOperand.Draw(t, "arg")
		}
	}
	return args
}

func drawComment(t *rapid.T) Op {
	n := rapid.IntRange(0, 30).Draw(t, "clen")
	if rapid.IntRange(0, 29).Draw(t, "clong") == 0 {
		n = rapid.IntRange(31, 4000).Draw(t, "clen2")
	}
	s := make([]byte, 1, n+1)
	s[0] = '%'
	if n > 40 {
		r := vt.NewRand(rapid.Uint64().Draw(t, "cseed"))
		for range n {
			s = append(s, gen.HostileAlphabet[r.Intn(len(gen.HostileAlphabet))])
		}
	} else {
		for range n {
			if rapid.Bool().Draw(t, "hostile") {
				s = append(s, rapid.SampledFrom(gen.HostileAlphabet).Draw(t, "c"))
			} else {
				s = append(s, rapid.Byte().Draw(t, "c"))
			}
		}
	}
	for i := 1; i < len(s); i++ {
		if s[i] == '\r' || s[i] == '\n' {
			s[i] = ' '
		}
	}
	return Op{Name: gen.Hex(nameRaw), Args: []gen.O{{T: "str", S: s}}}
}

var imageDataVocab = [][]byte{[]byte("EI"), []byte("\nEI"), []byte("\nEI "), []byte("\nEI\n"),
	[]byte("\r\nEI\n"), []byte("\rEI/"), []byte("\nEIx"), []byte("\nEI\x00"), []byte("\nEI("),
	[]byte("EI "), []byte(" "), []byte("\n"), []byte("\r"), []byte("\r\n"), []byte("\t"), {0},
	[]byte("\f"), []byte("E"), []byte("I"), []byte("%"), []byte("\nE"), []byte("ID"), []byte("BI"),
	[]byte("Q"), []byte("q"), []byte("~>"), []byte(">"), []byte("\nEI\nEI\n"), []byte("\n\nEI")}

var bulkAlphabet = []byte("EIEI\n\n\r \t\x00x0%/()<>[]qQ\xff\x80ID")

// boundaryLengths are the data lengths around the limits: 4096 is the most
// PDF 2.0 and the scanner allow, 4094 the most the scanner reads without /L.
var boundaryLengths = []int{4093, 4094, 4095, 4096, 4096, 4096}

func drawImageData(t *rapid.T, boundary bool) []byte {
	var data []byte
	if boundary || rapid.IntRange(0, 24).Draw(t, "bulk") == 0 {
		n := rapid.IntRange(100, maxInlineData).Draw(t, "bulklen")
		if boundary || rapid.IntRange(0, 3).Draw(t, "edge") == 0 {
			n = rapid.SampledFrom(boundaryLengths).Draw(t, "edgelen")
		}
		r := vt.NewRand(rapid.Uint64().Draw(t, "bulkseed"))
		binary := rapid.Bool().Draw(t, "binary")
		data = make([]byte, n)
		for i := range data {
			if binary && r.Intn(4) != 0 {
				data[i] = byte(r.Uint64())
			} else {
				data[i] = bulkAlphabet[r.Intn(len(bulkAlphabet))]
			}
		}
		return data
	}
	k := rapid.IntRange(1, 8).Draw(t, "pieces")
	for range k {
		if rapid.IntRange(0, 2).Draw(t, "vocab") > 0 {
			data = append(data, rapid.SampledFrom(imageDataVocab).Draw(t, "piece")...)
		} else {
			n := rapid.IntRange(1, 5).Draw(t, "rndlen")
			for range n {
				data = append(data, rapid.Byte().Draw(t, "b"))
			}
		}
	}
	return data
}

var (
	filterNames = []string{"AHx", "A85", "ASCIIHexDecode", "ASCII85Decode", "Fl", "FlateDecode",
		"LZW", "LZWDecode", "RL", "RunLengthDecode", "CCF", "DCT", "DCTDecode"}
	csNames  = []string{"G", "RGB", "CMYK", "I", "DeviceGray", "DeviceRGB", "DeviceCMYK", "Cs1"}
	plainKey = []byte("ABCDEFGHIJKLMNOPQRSTUVWXYZabcdefghijklmnopqrstuvwxyz0123456789")
)

func intO(v int64) gen.O    { return gen.O{T: "int", I: v} }
func nameO(s string) gen.O  { return gen.O{T: "name", S: gen.Hex(s)} }
func boolO(b bool) gen.O    { return gen.O{T: "bool", B: b} }
func realO(f float64) gen.O { return gen.O{T: "real", F: math.Float64bits(f)} }

func drawImage(t *rapid.T) Op { return drawImageB(t, false) }

// defuse changes data so that it can be framed without /L.
func defuse(data []byte) []byte {
	for i := 0; i+2 < len(data); i++ {
		if (data[i] == '\n' || data[i] == '\r') && data[i+1] == 'E' && data[i+2] == 'I' {
			if i+3 == len(data) || !isRegular(data[i+3]) {
				data[i+2] = 'J'
			}
		}
	}
	return data
}

// drawImageB draws an inline image; boundary asks for data at the size limits.
func drawImageB(t *rapid.T, boundary bool) Op {
	var d []gen.KV
	seen := map[string]bool{}
	add := func(k string, v gen.O) {
		if !seen[k] {
			seen[k] = true
			d = append(d, gen.KV{K: gen.Hex(k), V: v})
		}
	}
	pick := func(label string, names ...string) string {
		return rapid.SampledFrom(names).Draw(t, label)
	}

	w := rapid.SampledFrom([]int64{1, 1, 2, 8, 17, 100, 512, 4096, maxInlineDim}).Draw(t, "w")
	if rapid.Bool().Draw(t, "wrnd") {
		w = rapid.Int64Range(1, 1000).Draw(t, "w2")
	}
	hmax := min(int64(maxInlineDim), maxInlinePixels/w)
	h := rapid.Int64Range(1, hmax).Draw(t, "h")
	if rapid.IntRange(0, 3).Draw(t, "hedge") == 0 {
		h = hmax
	}
	add(pick("wkey", "W", "W", "Width"), intO(w))
	add(pick("hkey", "H", "H", "Height"), intO(h))

	if rapid.Bool().Draw(t, "bpc") {
		add(pick("bpckey", "BPC", "BitsPerComponent"), intO(rapid.SampledFrom([]int64{1, 2, 4, 8, 16}).Draw(t, "bpcv")))
	}
	if rapid.Bool().Draw(t, "cs") {
		var v gen.O
		if rapid.IntRange(0, 3).Draw(t, "csidx") == 0 {
			v = gen.O{T: "arr", A: []gen.O{nameO(pick("ix", "I", "Indexed")), nameO(pick("base", "RGB", "G", "DeviceRGB")),
				intO(rapid.Int64Range(0, 255).Draw(t, "hival")), {T: "str", S: gen.Hex(genHostileBytes.Draw(t, "lookup"))}}}
		} else {
			v = nameO(rapid.SampledFrom(csNames).Draw(t, "csname"))
		}
		add(pick("cskey", "CS", "ColorSpace"), v)
	}
	if rapid.IntRange(0, 3).Draw(t, "im") == 0 {
		add(pick("imkey", "IM", "ImageMask"), boolO(rapid.Bool().Draw(t, "imv")))
	}
	if rapid.IntRange(0, 3).Draw(t, "dec") == 0 {
		n := rapid.IntRange(0, 4).Draw(t, "ndec")
		arr := gen.O{T: "arr", A: make([]gen.O, n)}
		for i := range arr.A {
			if rapid.Bool().Draw(t, "decint") {
				arr.A[i] = intO(rapid.Int64Range(0, 255).Draw(t, "dv"))
			} else {
				arr.A[i] = realO(gen.Real().Draw(t, "dr"))
			}
		}
		add(pick("deckey", "D", "Decode"), arr)
	}
	if rapid.IntRange(0, 5).Draw(t, "interp") == 0 {
		add(pick("ikey", "I", "Interpolate"), boolO(rapid.Bool().Draw(t, "iv")))
	}

	// filters
	switch rapid.IntRange(0, 9).Draw(t, "filt") {
	case 0, 1, 2:
		add(pick("fkey", "F", "Filter"), nameO(rapid.SampledFrom(filterNames).Draw(t, "fname")))
	case 3:
		n := rapid.IntRange(0, 3).Draw(t, "nfilt")
		arr := gen.O{T: "arr", A: make([]gen.O, n)}
		parms := gen.O{T: "arr", A: make([]gen.O, n)}
		for i := range arr.A {
			arr.A[i] = nameO(rapid.SampledFrom(filterNames).Draw(t, "fname"))
			if rapid.Bool().Draw(t, "parm") {
				parms.A[i] = gen.O{T: "dict", D: []gen.KV{{K: gen.Hex("Predictor"), V: intO(12)}, {K: gen.Hex("Columns"), V: intO(w)}}}
			} else {
				parms.A[i] = gen.O{T: "null"}
			}
		}
		add(pick("fkey", "F", "Filter"), arr)
		if rapid.Bool().Draw(t, "dp") {
			add(pick("dpkey", "DP", "DecodeParms"), parms)
		}
	}

	// arbitrary further entries
	nx := rapid.IntRange(0, 3).Draw(t, "extra")
	for range nx {
		var key []byte
		if rapid.IntRange(0, 7).Draw(t, "hostilekey") == 0 {
			key = genHostileBytes.Draw(t, "key")
		} else {
			n := rapid.IntRange(1, 8).Draw(t, "keylen")
			for range n {
				key = append(key, rapid.SampledFrom(plainKey).Draw(t, "kc"))
			}
		}
		if reservedImageKeys[string(key)] {
			continue
		}
		add(string(key), genImageValue.Draw(t, "val"))
	}

	data := drawImageData(t, boundary)
	if len(data) >= maxInlineDataNoL-1 && rapid.Bool().Draw(t, "defuse") {
		data = defuse(data) // a long image which needs no /L
	}
	if len(data) == 0 {
		data = []byte("E")
	}
	if usesASCIIFilter(d) && isSpace[data[0]] {
		data[0] = 'A' // keeps the length
	}
	if len(data) > maxInlineData {
		data = data[:maxInlineData]
	}
	withL := rapid.IntRange(0, 3).Draw(t, "withL") == 0
	if len(data) > maxInlineDataNoL && !assertNoLengthBoundary() {
		withL = true // region of findingNoLength
	}
	if withL || needsLength(data) {
		add(pick("lkey", "L", "L", "Length"), intO(int64(len(data))))
	}

	// the order of the entries in the case does not matter; keep it sorted
	sort.Slice(d, func(i, j int) bool { return string(d[i].K) < string(d[j].K) })
	return Op{Name: gen.Hex(nameImage), Args: []gen.O{{T: "dict", D: d}, {T: "str", S: gen.Hex(data)}}}
}

func drawOp(t *rapid.T) Op {
	switch k := rapid.IntRange(0, 19).Draw(t, "opkind"); {
	case k < 11:
		return Op{Name: gen.Hex(rapid.SampledFrom(tableOps).Draw(t, "op")), Args: drawOperands(t)}
	case k < 14:
		return Op{Name: gen.Hex(drawUnknownName(t)), Args: drawOperands(t)}
	case k < 16:
		return drawComment(t)
	default:
		return drawImage(t)
	}
}

func genCase(t *rapid.T) Case {
	var c Case
	n := rapid.IntRange(0, 12).Draw(t, "nops")
	if rapid.IntRange(0, 7).Draw(t, "manyops") == 0 {
		n = rapid.IntRange(13, 40).Draw(t, "nops2")
	}
	deep := rapid.IntRange(0, 39).Draw(t, "deep") == 0
	for i := 0; i < n; i++ {
		if deep && i == 0 {
			d := rapid.IntRange(4, 200).Draw(t, "depth")
			pat := rapid.Uint64().Draw(t, "pattern")
			if rapid.Bool().Draw(t, "arraysonly") {
				pat = 0
			}
			leaf := genScalar.Draw(t, "leaf")
			op := Op{Name: gen.Hex(rapid.SampledFrom(tableOps).Draw(t, "op")), Args: drawOperands(t)}
			if len(op.Args) >= 32 {
				op.Args = op.Args[:31]
			}
			op.Args = append(op.Args, gen.Deep(d, pat, leaf))
			c.Ops = append(c.Ops, op)
			continue
		}
		c.Ops = append(c.Ops, drawOp(t))
	}
	if rapid.Bool().Draw(t, "split") {
		k := rapid.IntRange(1, 3).Draw(t, "ncuts")
		for range k {
			c.Cuts = append(c.Cuts, rapid.IntRange(0, len(c.Ops)).Draw(t, "cut"))
		}
		sort.Ints(c.Cuts)
		for range k + 1 {
			c.Raw = append(c.Raw, rapid.Bool().Draw(t, "raw"))
		}
	}
	if rapid.IntRange(0, 3).Draw(t, "chunked") == 0 {
		c.Chunk = rapid.SampledFrom([]int{1, 2, 3, 5, 7, 16, 61, 511, 512, 513}).Draw(t, "chunk")
	}
	c.StrictNilDict = !vt.FindingOpen(findingNilDict)
	return c
}

// ---------------------------------------------------------------------------
// oracle

// rawSegment is a content-stream segment given as bytes, as a file-backed
// page.Source would deliver it.
type rawSegment struct{ data []byte }

func (s *rawSegment) RawBytes() (io.ReadCloser, error) {
	return io.NopCloser(bytes.NewReader(s.data)), nil
}

func (s *rawSegment) Embed(*pdf.EmbedHelper) (pdf.Native, error) {
	return nil, fmt.Errorf("rawSegment cannot be embedded")
}

var _ page.Segment = (*rawSegment)(nil)

// chunkReader returns at most n bytes per Read.
type chunkReader struct {
	r io.Reader
	n int
}

func (c *chunkReader) Read(p []byte) (int, error) {
	if c.n > 0 && len(p) > c.n {
		p = p[:c.n]
	}
	return c.r.Read(p)
}

func (c *chunkReader) Close() error { return nil }

func readChunked(r io.Reader, chunk int) ([]byte, error) {
	if chunk <= 0 {
		return io.ReadAll(r)
	}
	var out []byte
	buf := make([]byte, chunk)
	for {
		n, err := r.Read(buf)
		out = append(out, buf[:n]...)
		if err == io.EOF {
			return out, nil
		}
		if err != nil {
			return out, err
		}
		if n == 0 && len(out) > 1<<26 {
			return out, fmt.Errorf("reader does not make progress")
		}
	}
}

func (c *Case) obj(o gen.O) pdf.Object {
	if c.StrictNilDict {
		return o.PDF()
	}
	return relaxNilDict(o).PDF()
}

// build returns the operators handed to the writer and the operators the
// scanner is expected to yield.
func (c *Case) build() (ops []content.Operator, want []scanned) {
	for _, op := range c.Ops {
		in := make([]pdf.Object, len(op.Args))
		exp := make([]pdf.Object, len(op.Args))
		for i, a := range op.Args {
			in[i] = a.PDF()
			exp[i] = c.obj(a)
		}
		ops = append(ops, content.Operator{Name: content.OpName(op.Name), Args: in})
		want = append(want, scanned{Name: content.OpName(op.Name), Args: exp})
	}
	return ops, want
}

func formatOps(ops []content.Operator) ([]byte, error) {
	var buf bytes.Buffer
	for _, op := range ops {
		if err := op.Format(&buf); err != nil {
			return nil, err
		}
	}
	return buf.Bytes(), nil
}

func trimLastEOL(b []byte) []byte {
	if n := len(b); n > 0 && b[n-1] == '\n' {
		return b[:n-1]
	}
	return b
}

func checkCase(c *Case) error {
	if err := inDomain(c); err != nil {
		return fmt.Errorf("GENERATOR DEFECT, case outside the domain: %v", err)
	}
	ops, want := c.build()

	// one piece, through Operators.RawBytes
	rc, err := (&content.Operators{Ops: ops}).RawBytes()
	if err != nil {
		return fmt.Errorf("RawBytes failed: %v", err)
	}
	text, err := readChunked(rc, c.Chunk)
	rc.Close()
	if err != nil {
		return fmt.Errorf("reading RawBytes failed: %v", err)
	}
	c.text = text
	got, err := scanAll(func() (io.ReadCloser, error) {
		return &chunkReader{r: bytes.NewReader(text), n: c.Chunk}, nil
	})
	if err != nil {
		return fmt.Errorf("one piece: %v in %q", err, clip(text))
	}
	if err := compareOps("one piece", want, got, text); err != nil {
		return err
	}

	if len(c.Cuts) == 0 {
		return nil
	}

	// the same sequence, cut at operator boundaries
	var segs []page.Segment
	lo := 0
	bounds := append(append([]int{}, c.Cuts...), len(c.Ops))
	for i, hi := range bounds {
		part := ops[lo:hi]
		if c.Raw[i] {
			b, err := formatOps(part)
			if err != nil {
				return fmt.Errorf("Format failed: %v", err)
			}
			segs = append(segs, &rawSegment{data: trimLastEOL(b)})
		} else {
			segs = append(segs, &content.Operators{Ops: part})
		}
		lo = hi
	}
	joined, err := readChunked(page.SegmentsReader(segs), c.Chunk)
	if err != nil {
		return fmt.Errorf("SegmentsReader failed: %v", err)
	}
	got2, err := scanAll(func() (io.ReadCloser, error) {
		return &chunkReader{r: page.SegmentsReader(segs), n: c.Chunk}, nil
	})
	if err != nil {
		return fmt.Errorf("split %v: %v in %q", c.Cuts, err, clip(joined))
	}
	if err := compareOps(fmt.Sprintf("split at %v (raw %v)", c.Cuts, c.Raw), want, got2, joined); err != nil {
		return err
	}
	// the page's own iterator is documented to be the same view
	it := (&page.Page{Contents: segs}).NewIter()
	var got3 []scanned
	for name, args := range it.All() {
		got3 = append(got3, scanned{Name: name, Args: append([]pdf.Object(nil), args...)})
	}
	if err := it.Err(); err != nil {
		return fmt.Errorf("Page.NewIter: Err() = %v", err)
	}
	return compareOps(fmt.Sprintf("Page.NewIter, split at %v (raw %v)", c.Cuts, c.Raw), want, got3, joined)
}

// ---------------------------------------------------------------------------
// classification

func walk(o gen.O, f func(gen.O)) {
	f(o)
	for _, e := range o.A {
		walk(e, f)
	}
	for _, kv := range o.D {
		walk(kv.V, f)
	}
}

func needsNameEscape(k []byte) bool {
	for _, b := range k {
		if !isRegular(b) || b < 0x21 || b > 0x7e || b == '#' {
			return true
		}
	}
	return false
}

func classify(c *Case) (bool, []string) {
	set := map[string]bool{}
	for _, op := range c.Ops {
		switch string(op.Name) {
		case nameRaw:
			set["comment"] = true
			continue
		case nameImage:
			set["image"] = true
			d, data := op.Args[0].D, op.Args[1].S
			if bytes.Contains(data, []byte("EI")) {
				set["inline-EI"] = true
			}
			if needsLength(data) {
				set["inline-needs-L"] = true
			} else if bytes.Contains(data, []byte("\nEI")) || bytes.Contains(data, []byte("\rEI")) {
				set["inline-EOL-EI-regular"] = true
			}
			if _, ok := dictGet(d, "L", "Length"); ok {
				set["inline-with-L"] = true
			}
			if isSpace[data[0]] || isSpace[data[len(data)-1]] {
				set["inline-space-at-edge"] = true
			}
			if usesASCIIFilter(d) {
				set["inline-ascii-filter"] = true
			}
			for _, kv := range d {
				if needsNameEscape(kv.K) {
					set["inline-key-escape"] = true
				}
			}
			if len(data) > 512 {
				set["inline-data>512"] = true
			}
			_, hasL := dictGet(d, "L", "Length")
			switch n := len(data); {
			case n == 4096:
				set["len==4096"] = true
				if needsLength(data) {
					set["len==4096-EOL-EI"] = true
				}
				if !hasL {
					set["len==4096-no-L"] = true
				}
			case n == 4095:
				set["len==4095"] = true
				if !hasL {
					set["len==4095-no-L"] = true
				}
			case n == 4094 && !hasL:
				set["len==4094-no-L"] = true
			}
		default:
			if _, ok := knownOps[string(op.Name)]; !ok {
				set["unknown-op"] = true
			}
		}
		if len(op.Args) >= 16 {
			set["operands>=16"] = true
		}
		for _, a := range op.Args {
			if d := a.Depth(); d >= 3 {
				set["nest>=3"] = true
				if d > 100 {
					set["depth>100"] = true
				}
			}
			walk(a, func(o gen.O) {
				switch o.T {
				case "str":
					var buf bytes.Buffer
					_ = pdf.Format(&buf, pdf.OptContentStream, pdf.String(o.S))
					if bytes.IndexByte(buf.Bytes(), '\\') >= 0 {
						set["escape-string"] = true
					}
				case "real":
					s := strconv.FormatFloat(math.Float64frombits(o.F), 'f', -1, 64)
					if len(s) >= 17 {
						set["real-many-digits"] = true
					}
				case "name":
					if needsNameEscape(o.S) {
						set["escape-name"] = true
					}
				}
			})
		}
	}
	if len(c.Cuts) > 0 {
		set["split"] = true
		for _, r := range c.Raw {
			if r {
				set["split-raw-segment"] = true
			}
		}
		for _, k := range c.Cuts {
			if k > 0 && k < len(c.Ops) {
				set["split-inside"] = true
			}
		}
	}
	if c.Chunk > 0 {
		set["chunked-io"] = true
	}
	if len(c.Ops) == 0 {
		set["empty"] = true
	}
	nt := set["escape-string"] || set["inline-EI"] || set["nest>=3"] || set["split-inside"]
	cls := make([]string, 0, len(set))
	for k := range set {
		cls = append(cls, k)
	}
	sort.Strings(cls)
	return nt, cls
}

var knownOps = func() map[string]bool {
	m := map[string]bool{}
	for _, n := range tableOps {
		m[n] = true
	}
	return m
}()

// genImageCase draws short sequences around inline images whose data sits at
// the size limits (4093-4096 bytes), with and without /L, in one piece and
// split.
func genImageCase(t *rapid.T) Case {
	var c Case
	n := rapid.IntRange(1, 3).Draw(t, "nops")
	for i := 0; i < n; i++ {
		if i == 0 || rapid.Bool().Draw(t, "image") {
			c.Ops = append(c.Ops, drawImageB(t, true))
		} else {
			c.Ops = append(c.Ops, drawOp(t))
		}
	}
	c.Ops = append(c.Ops, Op{Name: gen.Hex(rapid.SampledFrom(tableOps).Draw(t, "op")), Args: drawOperands(t)})
	if rapid.Bool().Draw(t, "split") {
		k := rapid.IntRange(1, 2).Draw(t, "ncuts")
		for range k {
			c.Cuts = append(c.Cuts, rapid.IntRange(0, len(c.Ops)).Draw(t, "cut"))
		}
		sort.Ints(c.Cuts)
		for range k + 1 {
			c.Raw = append(c.Raw, rapid.Bool().Draw(t, "raw"))
		}
	}
	if rapid.IntRange(0, 3).Draw(t, "chunked") == 0 {
		c.Chunk = rapid.SampledFrom([]int{1, 3, 61, 511, 512, 513, 4096}).Draw(t, "chunk")
	}
	c.StrictNilDict = !vt.FindingOpen(findingNilDict)
	return c
}

var opsProp = &vt.Prop[Case]{
	Property: propID,
	Kind:     "c15-ops",
	Gen:      genCase,
	Check:    checkCase,
	Classify: classify,
	Excluded: func(c *Case) []string {
		if !assertNoLengthBoundary() {
			for _, op := range c.Ops {
				if string(op.Name) == nameImage && len(op.Args[1].S) > maxInlineDataNoL {
					return []string{findingNoLength}
				}
			}
		}
		if !c.StrictNilDict {
			for _, op := range c.Ops {
				for _, a := range op.Args {
					if hasNilDict(a) {
						return []string{findingNilDict}
					}
				}
			}
		}
		return nil
	},
	Render: func(c *Case) any {
		return map[string]any{"ops": len(c.Ops), "cuts": c.Cuts, "raw": c.Raw, "chunk": c.Chunk,
			"text": string(clip(c.text))}
	},
}

func init() { vt.Register(opsProp) }

func TestOps(t *testing.T) {
	opsProp.Run(t, vt.NewStats(propID, "ops"))
}

// imageProp is opsProp with a generator focused on the inline-image size
// limits; failures are c15-ops cases.
var imageProp = func() *vt.Prop[Case] {
	p := *opsProp
	p.Gen = genImageCase
	return &p
}()

func TestInlineImage(t *testing.T) {
	imageProp.Run(t, vt.NewStats(propID, "inline-image"))
}
