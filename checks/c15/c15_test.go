// Package c15 checks property C15: content streams -- operators written are
// the operators read.
//
// Three parts:
//
//	ops_test.go      operator sequences -> bytes -> scanner, in one piece and
//	                 split at operator boundaries through page.SegmentsReader
//	builder_test.go  call sequences over builder.Builder, guarded by a small
//	                 model of what the Builder accepts
package c15

import (
	"bytes"
	"fmt"
	"io"
	"testing"

	"seehuhn.de/go/pdf"
	"seehuhn.de/go/pdf/graphics/content"
	"seehuhn.de/go/pdf/verif/internal/gen"
	"seehuhn.de/go/pdf/verif/internal/vt"
)

func TestMain(m *testing.M) { vt.Main(m) }

func TestReplay(t *testing.T) { vt.RunReplay(t) }

const propID = "C15"

// findingNilDict is the open finding of C01: pdf.Format writes a nil Dict as
// "<<>>", so it reads back as an empty dictionary and not as null.  Operands
// are "drawn as in C01", so the same region is excluded here (and counted).
const findingNilDict = "C01-nil-dict"

// scanned is one operator as the scanner yielded it (arguments cloned).
type scanned struct {
	Name content.OpName
	Args []pdf.Object
}

// scanAll reads a whole content stream with the public scanner API.
func scanAll(open func() (io.ReadCloser, error)) ([]scanned, error) {
	it := content.NewScanner(open).NewIter()
	var res []scanned
	for name, args := range it.All() {
		// the args slice is transient; the objects themselves are not reused
		res = append(res, scanned{Name: name, Args: append([]pdf.Object(nil), args...)})
	}
	if err := it.Err(); err != nil {
		return res, fmt.Errorf("Iter.Err() = %v", err)
	}
	return res, nil
}

func scanBytes(data []byte) ([]scanned, error) {
	return scanAll(func() (io.ReadCloser, error) {
		return io.NopCloser(bytes.NewReader(data)), nil
	})
}

// compareOps demands the same operator names with EqObj-equal operands, in
// order, nothing dropped and nothing invented.
func compareOps(what string, want, got []scanned, text []byte) error {
	n := min(len(want), len(got))
	for i := 0; i < n; i++ {
		w, g := want[i], got[i]
		if w.Name != g.Name {
			return fmt.Errorf("%s: operator %d: wrote %q, read %q (%d written, %d read) in %q",
				what, i, w.Name, g.Name, len(want), len(got), clip(text))
		}
		if len(w.Args) != len(g.Args) {
			return fmt.Errorf("%s: operator %d (%s): wrote %d operands, read %d in %q",
				what, i, w.Name, len(w.Args), len(g.Args), clip(text))
		}
		for k := range w.Args {
			if err := vt.EqObj(w.Args[k], g.Args[k]); err != nil {
				return fmt.Errorf("%s: operator %d (%s) operand %d: %v in %q", what, i, w.Name, k, err, clip(text))
			}
		}
	}
	if len(want) != len(got) {
		extra := ""
		if len(got) > n {
			extra = fmt.Sprintf("; first invented operator %q", got[n].Name)
		} else {
			extra = fmt.Sprintf("; first lost operator %q", want[n].Name)
		}
		return fmt.Errorf("%s: wrote %d operators, read %d%s in %q", what, len(want), len(got), extra, clip(text))
	}
	return nil
}

func clip(b []byte) []byte {
	if len(b) > 400 {
		return append(append([]byte{}, b[:400]...), "..."...)
	}
	return b
}

// relaxNilDict replaces nil dictionaries by empty ones (region of the open
// finding C01-nil-dict).
func relaxNilDict(o gen.O) gen.O {
	switch o.T {
	case "nildict":
		return gen.O{T: "dict"}
	case "arr":
		a := make([]gen.O, len(o.A))
		for i, e := range o.A {
			a[i] = relaxNilDict(e)
		}
		return gen.O{T: "arr", A: a}
	case "dict":
		d := make([]gen.KV, len(o.D))
		for i, kv := range o.D {
			d[i] = gen.KV{K: kv.K, V: relaxNilDict(kv.V)}
		}
		return gen.O{T: "dict", D: d}
	}
	return o
}

func hasNilDict(o gen.O) bool {
	if o.T == "nildict" {
		return true
	}
	for _, e := range o.A {
		if hasNilDict(e) {
			return true
		}
	}
	for _, kv := range o.D {
		if hasNilDict(kv.V) {
			return true
		}
	}
	return false
}
