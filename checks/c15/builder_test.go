package c15

import (
	"fmt"
	"io"
	"sort"
	"strings"
	"testing"

	"pgregory.net/rapid"
	"seehuhn.de/go/geom/matrix"
	"seehuhn.de/go/pdf"
	"seehuhn.de/go/pdf/font"
	"seehuhn.de/go/pdf/font/standard"
	"seehuhn.de/go/pdf/graphics"
	"seehuhn.de/go/pdf/graphics/color"
	"seehuhn.de/go/pdf/graphics/content"
	"seehuhn.de/go/pdf/graphics/content/builder"
	"seehuhn.de/go/pdf/page"
	"seehuhn.de/go/pdf/property"
	"seehuhn.de/go/pdf/verif/internal/gen"
	"seehuhn.de/go/pdf/verif/internal/vt"
)

// ---------------------------------------------------------------------------
// the case: a list of Builder calls

// Action is one call of a Builder method.
type Action struct {
	M string    `json:"m"`           // method name
	F []float64 `json:"f,omitempty"` // numeric parameters
	I int       `json:"i,omitempty"` // integer parameter (style, mode, font index, ...)
	S gen.Hex   `json:"s,omitempty"` // string / tag / image data
	D []gen.KV  `json:"d,omitempty"` // inline image dictionary
	// Sub is the call sequence run inside Build(func(b *Builder) error {...}).
	Sub []Action `json:"sub,omitempty"`
}

// BCase is a call sequence for a Builder of a page content stream.
type BCase struct {
	V2      bool     `json:"v2"` // target PDF 2.0 (else 1.7)
	Actions []Action `json:"actions"`
	// Cuts select truncation points of the final stream (index modulo its
	// length + 1) at which State.ClosingOperators is driven.
	Cuts []int `json:"cuts,omitempty"`

	// observations for Classify
	verdict    string // "balanced", "unbalanced", "rejected", "unmodelled"
	reason     string
	names      []string
	segments   int
	text       []byte
	maxNesting int
	events     map[string]bool
}

// ---------------------------------------------------------------------------
// the model of what the Builder accepts (page content stream)

const (
	ctxPage = 1 << iota
	ctxPath
	ctxText
	ctxClip
	ctxAny = ctxPage | ctxPath | ctxText | ctxClip
)

type savedBits struct{ font, tm bool }

type model struct {
	v2   bool
	obj  int
	nest []byte // 'q', 'T' (BT), 'M' (BMC/BDC), innermost last
	font bool   // a font has been selected (Tf)
	tm   bool   // text matrix defined (inside BT..ET)
	// tmVague: a Q whose q was opened outside the current text object was
	// accepted inside it (q BT Q ...).  Whether the text matrix counts as
	// defined afterwards depends on State internals (the "usable" bit for the
	// text matrix is saved by q, and is initially set for page streams), so
	// calls which need it may be accepted or rejected.
	tmVague bool
	saved   []savedBits
}

func newModel(v2 bool) *model { return &model{v2: v2, obj: ctxPage} }

func (m *model) clone() *model {
	c := *m
	c.nest = append([]byte(nil), m.nest...)
	c.saved = append([]savedBits(nil), m.saved...)
	return &c
}

// reset is what Reset (and the Reset inside Build) does to the model: the
// initial state of a page content stream, for the same target version.
func (m *model) reset() { *m = model{v2: m.v2, obj: ctxPage} }

func (m *model) balanced() bool { return m.obj == ctxPage && len(m.nest) == 0 }

func (m *model) open(kind byte) bool {
	for _, k := range m.nest {
		if k == kind {
			return true
		}
	}
	return false
}

// removeInnermost removes the innermost open pair of the given kind and
// leaves all other pairs open.
func (m *model) removeInnermost(kind byte) {
	for i := len(m.nest) - 1; i >= 0; i-- {
		if m.nest[i] == kind {
			m.nest = append(m.nest[:i], m.nest[i+1:]...)
			return
		}
	}
}

func (m *model) top() byte {
	if len(m.nest) == 0 {
		return 0
	}
	return m.nest[len(m.nest)-1]
}

// item describes the operators one call is documented to emit: between Min
// and Max operators with names from Names.
type item struct {
	Names    []string
	Min, Max int
}

func one(names ...string) []item { return []item{{Names: names, Min: 1, Max: 1}} }
func opt(names ...string) []item { return []item{{Names: names, Min: 0, Max: 1}} }

type verdict int

const (
	accept verdict = iota
	reject
	unmodelled // the model makes no prediction; the case is not asserted
	// either: a closer whose opener is not the innermost open pair
	// (overlapping pairs such as q BMC Q).  The State tolerates these; the
	// Builder may accept or reject the call.  If it accepts, the model goes on
	// with the matched pair removed and every other pair still open.
	either
)

var paintOps = map[string]string{"Stroke": "S", "CloseAndStroke": "s", "Fill": "f", "FillEvenOdd": "f*",
	"FillAndStroke": "B", "FillAndStrokeEvenOdd": "B*", "CloseFillAndStroke": "b",
	"CloseFillAndStrokeEvenOdd": "b*", "EndPath": "n"}

// setters which suppress the operator when the value is unchanged; they are
// allowed at page level and inside text objects
var dedupSetters = map[string]string{"SetLineWidth": "w", "SetLineCap": "J", "SetLineJoin": "j",
	"SetMiterLimit": "M", "SetLineDash": "d", "SetFlatnessTolerance": "i", "SetRenderingIntent": "ri",
	"SetFillGray": "g", "SetFillRGB": "rg", "SetFillCMYK": "k",
	"SetStrokeGray": "G", "SetStrokeRGB": "RG", "SetStrokeCMYK": "K"}

// text state setters are allowed in every context
var textStateSetters = map[string]string{"TextSetCharacterSpacing": "Tc", "TextSetWordSpacing": "Tw",
	"TextSetHorizontalScaling": "Tz", "TextSetLeading": "TL", "TextSetRenderingMode": "Tr",
	"TextSetRise": "Ts", "TextSetFont": "Tf"}

var textPositioning = map[string]string{"TextFirstLine": "Td", "TextSecondLine": "TD",
	"TextSetMatrix": "Tm", "TextNextLine": "T*"}

var textShowing = map[string]string{"TextShowRaw": "Tj", "TextShowNextLineRaw": "'",
	"TextShowSpacedRaw": "\"", "TextShowKernedRaw": "TJ"}

// invalidParam reports whether the Builder documents the parameters as
// invalid (checked before anything is emitted).
func invalidParam(a *Action) bool {
	f := func(i int) float64 {
		if i < len(a.F) {
			return a.F[i]
		}
		return 0
	}
	switch a.M {
	case "SetLineWidth":
		return f(0) < 0
	case "SetLineCap", "SetLineJoin":
		return a.I > 2
	case "SetMiterLimit":
		return f(0) < 1
	case "SetFlatnessTolerance":
		return f(0) < 0 || f(0) > 100
	case "TextSetRenderingMode":
		return a.I > 7
	case "SetFillGray", "SetFillRGB", "SetFillCMYK", "SetStrokeGray", "SetStrokeRGB", "SetStrokeCMYK":
		for _, v := range a.F {
			if v < 0 || v > 1 {
				return true
			}
		}
	}
	return false
}

// step predicts what the Builder does with the call and advances the model.
// On reject and unmodelled the model is left unchanged.  On either the model
// is advanced as if the call was accepted.
func (m *model) step(a *Action) (verdict, []item, string) {
	in := func(mask int) bool { return m.obj&mask != 0 }
	no := func(why string) (verdict, []item, string) { return reject, nil, why }

	switch a.M {
	case "Harvest":
		return accept, nil, ""

	case "Reset":
		m.reset()
		return accept, nil, ""

	case "PushGraphicsState":
		if !in(ctxPage | ctxText) {
			return no("q inside a path")
		}
		if !m.v2 && in(ctxText) {
			return no("q inside a text object before PDF 2.0")
		}
		if !m.v2 && len(m.saved) >= 28 {
			return no("q nesting deeper than 28 before PDF 2.0")
		}
		m.saved = append(m.saved, savedBits{m.font, m.tm})
		m.nest = append(m.nest, 'q')
		return accept, one("q"), ""

	case "PopGraphicsState":
		if !in(ctxPage | ctxText) {
			return no("Q inside a path")
		}
		if !m.v2 && in(ctxText) {
			return no("Q inside a text object before PDF 2.0")
		}
		if !m.open('q') {
			return no("Q without q")
		}
		v := accept
		if m.top() != 'q' {
			v = either
		}
		s := m.saved[len(m.saved)-1]
		m.saved = m.saved[:len(m.saved)-1]
		m.removeInnermost('q')
		m.font, m.tm = s.font, s.tm
		if v == either && in(ctxText) {
			m.tm, m.tmVague = true, true
		}
		return v, one("Q"), "overlapping pairs: Q"

	case "Transform":
		if !in(ctxPage) {
			return no("cm outside page level")
		}
		return accept, one("cm"), ""

	case "MoveTo", "Rectangle":
		if !in(ctxPage | ctxPath) {
			return no("path start inside text or after clip")
		}
		m.obj = ctxPath
		return accept, one(map[string]string{"MoveTo": "m", "Rectangle": "re"}[a.M]), ""

	case "Circle":
		if !in(ctxPage | ctxPath) {
			return no("path start inside text or after clip")
		}
		m.obj = ctxPath
		return accept, []item{{Names: []string{"m"}, Min: 1, Max: 1},
			{Names: []string{"c", "v", "y"}, Min: 1, Max: 8}, {Names: []string{"h"}, Min: 1, Max: 1}}, ""

	case "LineTo", "CurveTo", "ClosePath":
		if !in(ctxPath) {
			return no("path segment without current path")
		}
		switch a.M {
		case "LineTo":
			return accept, one("l"), ""
		case "CurveTo":
			return accept, one("c", "v", "y"), ""
		}
		return accept, one("h"), ""

	case "ClipNonZero", "ClipEvenOdd":
		if !in(ctxPath) {
			return no("clip without current path")
		}
		m.obj = ctxClip
		return accept, one(map[string]string{"ClipNonZero": "W", "ClipEvenOdd": "W*"}[a.M]), ""

	case "TextBegin":
		if !in(ctxPage) {
			return no("BT outside page level")
		}
		m.obj = ctxText
		m.nest = append(m.nest, 'T')
		m.tm, m.tmVague = true, false
		return accept, one("BT"), ""

	case "TextEnd":
		if !in(ctxText) {
			return no("ET outside text object")
		}
		v := accept
		if m.top() != 'T' {
			v = either
		}
		m.removeInnermost('T')
		m.obj = ctxPage
		m.tm, m.tmVague = false, false
		return v, one("ET"), "overlapping pairs: ET"

	case "TextShow":
		if !in(ctxText) || !m.font || !m.tm || m.tmVague || len(a.S) == 0 {
			return unmodelled, nil, "TextShow outside its documented use"
		}
		return accept, []item{{Names: []string{"Tj", "TJ", "Ts"}, Min: 0, Max: 3 * len(a.S)}}, ""

	case "MarkedContentPoint":
		if !in(ctxPage | ctxText) {
			return no("MP inside a path")
		}
		return accept, one("MP"), ""

	case "MarkedContentStart":
		if !in(ctxPage | ctxText) {
			return no("BMC inside a path")
		}
		m.nest = append(m.nest, 'M')
		if a.I != 0 {
			return accept, one("BDC"), ""
		}
		return accept, one("BMC"), ""

	case "MarkedContentEnd":
		if !in(ctxPage | ctxText) {
			return no("EMC inside a path")
		}
		if !m.open('M') {
			return no("EMC without BMC")
		}
		v := accept
		if m.top() != 'M' {
			v = either
		}
		m.removeInnermost('M')
		return v, one("EMC"), "overlapping pairs: EMC"

	case "DrawInlineImageRaw":
		if !in(ctxPage) {
			return no("inline image outside page level")
		}
		return accept, one(nameImage), ""
	}

	if name, ok := paintOps[a.M]; ok {
		if !in(ctxPath | ctxClip) {
			return no("painting without current path")
		}
		m.obj = ctxPage
		return accept, one(name), ""
	}
	if name, ok := dedupSetters[a.M]; ok {
		if invalidParam(a) {
			return no("invalid parameter")
		}
		if !in(ctxPage | ctxText) {
			// rejected only if the value differs from the current one
			return unmodelled, nil, "graphics state setter inside a path"
		}
		return accept, opt(name), ""
	}
	if name, ok := textStateSetters[a.M]; ok {
		if invalidParam(a) {
			return no("invalid parameter")
		}
		if a.M == "TextSetFont" {
			m.font = true
		}
		return accept, opt(name), ""
	}
	if name, ok := textPositioning[a.M]; ok {
		if !in(ctxText) {
			return no("text positioning outside text object")
		}
		if a.M == "TextNextLine" && !m.tm {
			return no("T* without text matrix")
		}
		if a.M == "TextNextLine" && m.tmVague {
			return either, one(name), "text matrix after an overlapping Q"
		}
		return accept, one(name), ""
	}
	if name, ok := textShowing[a.M]; ok {
		if !in(ctxText) {
			return no("text showing outside text object")
		}
		if !m.font {
			return no("text showing without font")
		}
		if !m.tm {
			return no("text showing without text matrix")
		}
		if m.tmVague {
			return either, one(name), "text matrix after an overlapping Q"
		}
		return accept, one(name), ""
	}
	return unmodelled, nil, "unknown method " + a.M
}

// matchNames reports whether the operator names can be produced by the items
// in order.
func matchNames(items []item, names []string) bool {
	// reach[j]: the items so far can have produced names[:j]
	reach := make([]bool, len(names)+1)
	reach[0] = true
	for _, it := range items {
		ok := map[string]bool{}
		for _, n := range it.Names {
			ok[n] = true
		}
		next := make([]bool, len(names)+1)
		for j, r := range reach {
			if !r {
				continue
			}
			for k := 0; k <= it.Max && j+k <= len(names); k++ {
				if k > 0 && !ok[names[j+k-1]] {
					break
				}
				if k >= it.Min {
					next[j+k] = true
				}
			}
		}
		reach = next
	}
	return reach[len(names)]
}

// ---------------------------------------------------------------------------
// driving the real Builder

// fontSet holds the font instances of one case.  Instances allocate
// character codes as text is shown, so every case gets fresh ones (they are
// cheap clones of the bundled font data).
type fontSet struct{ f [2]font.Layouter }

func (fs *fontSet) get(i int) font.Layouter {
	i %= len(fs.f)
	if fs.f[i] == nil {
		if i == 0 {
			fs.f[i] = font.Must(standard.Helvetica.New())
		} else {
			fs.f[i] = font.Must(standard.TimesRoman.New())
		}
	}
	return fs.f[i]
}

func fl(a *Action, i int) float64 {
	if i < len(a.F) {
		return a.F[i]
	}
	return 0
}

func mat(a *Action) matrix.Matrix {
	return matrix.Matrix{fl(a, 0), fl(a, 1), fl(a, 2), fl(a, 3), fl(a, 4), fl(a, 5)}
}

var intents = []graphics.RenderingIntent{graphics.RelativeColorimetric, graphics.AbsoluteColorimetric,
	graphics.Saturation, graphics.Perceptual}

// call performs the action on b; harvested segments are appended to segs.
func call(b *builder.Builder, fs *fontSet, a *Action, segs *[]*content.Operators) error {
	switch a.M {
	case "Harvest":
		ops, err := b.Harvest()
		if err != nil {
			return nil // b.Err is inspected by the caller
		}
		*segs = append(*segs, ops)
	case "PushGraphicsState":
		b.PushGraphicsState()
	case "PopGraphicsState":
		b.PopGraphicsState()
	case "Transform":
		b.Transform(mat(a))
	case "SetLineWidth":
		b.SetLineWidth(fl(a, 0))
	case "SetLineCap":
		b.SetLineCap(graphics.LineCapStyle(a.I))
	case "SetLineJoin":
		b.SetLineJoin(graphics.LineJoinStyle(a.I))
	case "SetMiterLimit":
		b.SetMiterLimit(fl(a, 0))
	case "SetLineDash":
		n := len(a.F)
		if n == 0 {
			b.SetLineDash(nil, 0)
		} else {
			b.SetLineDash(append([]float64(nil), a.F[:n-1]...), a.F[n-1])
		}
	case "SetFlatnessTolerance":
		b.SetFlatnessTolerance(fl(a, 0))
	case "SetRenderingIntent":
		b.SetRenderingIntent(intents[a.I%len(intents)])
	case "SetFillGray":
		b.SetFillColor(color.DeviceGray(fl(a, 0)))
	case "SetStrokeGray":
		b.SetStrokeColor(color.DeviceGray(fl(a, 0)))
	case "SetFillRGB":
		b.SetFillColor(color.DeviceRGB{fl(a, 0), fl(a, 1), fl(a, 2)})
	case "SetStrokeRGB":
		b.SetStrokeColor(color.DeviceRGB{fl(a, 0), fl(a, 1), fl(a, 2)})
	case "SetFillCMYK":
		b.SetFillColor(color.DeviceCMYK{fl(a, 0), fl(a, 1), fl(a, 2), fl(a, 3)})
	case "SetStrokeCMYK":
		b.SetStrokeColor(color.DeviceCMYK{fl(a, 0), fl(a, 1), fl(a, 2), fl(a, 3)})
	case "MoveTo":
		b.MoveTo(fl(a, 0), fl(a, 1))
	case "LineTo":
		b.LineTo(fl(a, 0), fl(a, 1))
	case "CurveTo":
		b.CurveTo(fl(a, 0), fl(a, 1), fl(a, 2), fl(a, 3), fl(a, 4), fl(a, 5))
	case "ClosePath":
		b.ClosePath()
	case "Rectangle":
		b.Rectangle(fl(a, 0), fl(a, 1), fl(a, 2), fl(a, 3))
	case "Circle":
		b.Circle(fl(a, 0), fl(a, 1), fl(a, 2))
	case "Stroke":
		b.Stroke()
	case "CloseAndStroke":
		b.CloseAndStroke()
	case "Fill":
		b.Fill()
	case "FillEvenOdd":
		b.FillEvenOdd()
	case "FillAndStroke":
		b.FillAndStroke()
	case "FillAndStrokeEvenOdd":
		b.FillAndStrokeEvenOdd()
	case "CloseFillAndStroke":
		b.CloseFillAndStroke()
	case "CloseFillAndStrokeEvenOdd":
		b.CloseFillAndStrokeEvenOdd()
	case "EndPath":
		b.EndPath()
	case "ClipNonZero":
		b.ClipNonZero()
	case "ClipEvenOdd":
		b.ClipEvenOdd()
	case "TextBegin":
		b.TextBegin()
	case "TextEnd":
		b.TextEnd()
	case "TextSetCharacterSpacing":
		b.TextSetCharacterSpacing(fl(a, 0))
	case "TextSetWordSpacing":
		b.TextSetWordSpacing(fl(a, 0))
	case "TextSetHorizontalScaling":
		b.TextSetHorizontalScaling(fl(a, 0))
	case "TextSetLeading":
		b.TextSetLeading(fl(a, 0))
	case "TextSetRenderingMode":
		b.TextSetRenderingMode(graphics.TextRenderingMode(a.I))
	case "TextSetRise":
		b.TextSetRise(fl(a, 0))
	case "TextSetFont":
		if a.I < 0 {
			return fmt.Errorf("negative font index")
		}
		b.TextSetFont(fs.get(a.I), fl(a, 0))
	case "TextFirstLine":
		b.TextFirstLine(fl(a, 0), fl(a, 1))
	case "TextSecondLine":
		b.TextSecondLine(fl(a, 0), fl(a, 1))
	case "TextSetMatrix":
		b.TextSetMatrix(mat(a))
	case "TextNextLine":
		b.TextNextLine()
	case "TextShowRaw":
		b.TextShowRaw(pdf.String(a.S))
	case "TextShowNextLineRaw":
		b.TextShowNextLineRaw(pdf.String(a.S))
	case "TextShowSpacedRaw":
		b.TextShowSpacedRaw(fl(a, 0), fl(a, 1), pdf.String(a.S))
	case "TextShowKernedRaw":
		args := []pdf.Object{pdf.String(a.S)}
		for i, k := range a.F {
			switch i % 3 {
			case 0:
				args = append(args, pdf.Number(k))
			case 1:
				args = append(args, pdf.Real(k))
			default:
				args = append(args, pdf.Integer(int64(k)))
			}
			args = append(args, pdf.String(a.S))
		}
		b.TextShowKernedRaw(args...)
	case "TextShow":
		b.TextShow(string(a.S))
	case "MarkedContentPoint":
		b.MarkedContentPoint(&graphics.MarkedContent{Tag: pdf.Name(a.S)})
	case "MarkedContentStart":
		mc := &graphics.MarkedContent{Tag: pdf.Name(a.S)}
		if a.I != 0 {
			mc.Properties = &property.ActualText{Text: string(a.S), SingleUse: true}
			mc.Inline = true
		}
		b.MarkedContentStart(mc)
	case "MarkedContentEnd":
		b.MarkedContentEnd()
	case "DrawInlineImageRaw":
		d := gen.O{T: "dict", D: a.D}.PDF().(pdf.Dict)
		b.DrawInlineImageRaw(d, []byte(a.S))
	default:
		return fmt.Errorf("unknown method %q", a.M)
	}
	return nil
}

// native converts the operands the Builder holds (pdf.Number, pdf.TextString,
// ...) into the native objects the writer serialises.
func native(o pdf.Object) pdf.Object {
	if o == nil {
		return nil
	}
	switch x := o.AsPDF(pdf.OptContentStream).(type) {
	case pdf.Array:
		if x == nil {
			return x
		}
		out := make(pdf.Array, len(x))
		for i, e := range x {
			out[i] = native(e)
		}
		return out
	case pdf.Dict:
		if x == nil {
			return x
		}
		out := make(pdf.Dict, len(x))
		for k, v := range x {
			out[k] = native(v)
		}
		return out
	default:
		return x
	}
}

// group collects the segments harvested between two resets.  Within a group
// the graphics state continues from segment to segment, so the segments
// joined by page.SegmentsReader form one content stream.
type group struct {
	segs  []*content.Operators
	items []item // what the calls behind the harvested segments must have emitted
	final bool   // the group ends with the final Harvest: balance is asserted
}

// runner drives one Builder and the model side by side.
type runner struct {
	c       *BCase
	b       *builder.Builder
	m       *model
	fs      *fontSet
	cur     group
	pending []item // emitted since the last Harvest / Reset
	done    []group
	resets  int  // Reset and Build calls so far
	stop    bool // the case ended early (rejected or unmodelled)
}

func (r *runner) event(name string) {
	if r.resets > 0 {
		name += "-after-reset"
	}
	r.c.events[name] = true
}

func (r *runner) endGroup() {
	if len(r.cur.segs) > 0 {
		r.done = append(r.done, r.cur)
	}
	r.cur = group{}
	r.pending = nil
}

func (r *runner) rejected(i string, a *Action, why string) error {
	r.c.verdict, r.c.reason, r.stop = "rejected", why, true
	if r.b.Err == nil {
		return fmt.Errorf("action %s (%s): the Builder accepted a call it documents as invalid (%s); calls %s",
			i, a.M, why, describe(r.c.Actions))
	}
	if ops, err := r.b.Harvest(); err == nil || ops != nil {
		return fmt.Errorf("action %s (%s): Harvest succeeds although Err = %v", i, a.M, r.b.Err)
	}
	return nil
}

// do performs one action.  pos names the action in messages.
func (r *runner) do(pos string, a *Action, inBuild bool) error {
	c, b, m := r.c, r.b, r.m
	switch a.M {
	case "Reset", "Build", "Harvest":
		if inBuild {
			c.verdict, c.reason, r.stop = "unmodelled", a.M+" inside Build", true
			return nil
		}
	}
	switch a.M {
	case "Reset":
		// "Reset clears the stream and state while preserving the resources
		// dictionary": what was not harvested is gone, the target version stays
		r.endGroup()
		m.reset()
		b.Reset()
		r.resets++
		if b.Err != nil || len(b.Stream) != 0 {
			return fmt.Errorf("action %s: after Reset Err = %v, %d operators in the stream", pos, b.Err, len(b.Stream))
		}
		return nil

	case "Harvest":
		ops, err := b.Harvest()
		if err != nil || ops == nil {
			return fmt.Errorf("action %s: Harvest failed: %v", pos, err)
		}
		r.cur.segs = append(r.cur.segs, ops)
		r.cur.items = append(r.cur.items, r.pending...)
		r.pending = nil
		return nil

	case "Build":
		// "Build resets the builder, runs buildFunc to populate the stream,
		// and returns the resulting segment"; it fails if the stream cannot
		// be closed
		r.endGroup()
		m.reset()
		r.resets++
		var inner error
		ops := b.Build(func(bb *builder.Builder) error {
			if bb != b {
				inner = fmt.Errorf("action %s: Build hands a different Builder to buildFunc", pos)
				return nil
			}
			for k := range a.Sub {
				if inner = r.do(fmt.Sprintf("%s.%d", pos, k), &a.Sub[k], true); inner != nil || r.stop {
					return nil
				}
			}
			return nil
		})
		if inner != nil {
			return inner
		}
		if r.stop {
			if c.verdict == "rejected" && (ops != nil || b.Err == nil) {
				return fmt.Errorf("action %s: Build returns a segment (Err = %v) although a call inside was invalid (%s)", pos, b.Err, c.reason)
			}
			return nil
		}
		if !m.balanced() {
			c.verdict, c.reason, r.stop = "rejected", "Build of an unbalanced sequence", true
			if ops != nil || b.Err == nil {
				return fmt.Errorf("action %s: Build accepted the unbalanced sequence %s", pos, describe(a.Sub))
			}
			return nil
		}
		if ops == nil || b.Err != nil {
			return fmt.Errorf("action %s: Build rejected the valid balanced sequence %s: %v", pos, describe(a.Sub), b.Err)
		}
		r.cur.segs = append(r.cur.segs, ops)
		r.cur.items = append(r.cur.items, r.pending...)
		r.pending = nil
		return nil
	}

	if a.M == "DrawInlineImageRaw" {
		// the image itself must be inside the domain of part 1
		ic := Case{Ops: []Op{{Name: gen.Hex(nameImage), Args: []gen.O{{T: "dict", D: a.D}, {T: "str", S: a.S}}}}}
		if err := inDomain(&ic); err != nil {
			return fmt.Errorf("GENERATOR DEFECT, action %s: %v", pos, err)
		}
	}
	if a.M == "PushGraphicsState" {
		if m.obj == ctxText {
			r.event("q-in-text")
		}
		if d := len(m.saved) + 1; d >= 27 && d <= 29 && m.obj == ctxPage {
			r.event(fmt.Sprintf("q-depth-%d", d))
		}
	}
	v, its, why := m.step(a)
	if v == unmodelled {
		c.verdict, c.reason, r.stop = "unmodelled", why, true
		return nil
	}
	var none []*content.Operators
	if err := call(b, r.fs, a, &none); err != nil {
		return fmt.Errorf("GENERATOR DEFECT, action %s: %v", pos, err)
	}
	if v == reject {
		return r.rejected(pos, a, why)
	}
	if v == either {
		if b.Err != nil {
			// allowed: the Builder refuses overlapping pairs
			c.verdict, c.reason, r.stop = "rejected", why+" refused", true
			return nil
		}
		c.events["overlapping-pairs"] = true
	}
	if b.Err != nil {
		return fmt.Errorf("action %s (%s %v): the Builder rejected a valid call: %v; calls %s", pos, a.M, a.F, b.Err, describe(c.Actions))
	}
	r.pending = append(r.pending, its...)
	if len(its) > 0 && r.resets > 0 {
		c.events["reset-then-continue"] = true
	}
	if n := len(m.nest); n > c.maxNesting {
		c.maxNesting = n
	}
	return nil
}

func checkBuilder(c *BCase) error {
	version := pdf.V1_7
	if c.V2 {
		version = pdf.V2_0
	}
	c.verdict, c.reason, c.names, c.text, c.segments, c.maxNesting = "", "", nil, nil, 0, 0
	c.events = map[string]bool{}
	r := &runner{c: c, b: builder.New(content.Page, nil, version), m: newModel(c.V2), fs: &fontSet{}}
	b, m := r.b, r.m

	for i := range c.Actions {
		if err := r.do(fmt.Sprint(i), &c.Actions[i], false); err != nil {
			return err
		}
		if r.stop {
			return nil
		}
	}
	last, err := b.Harvest()
	if err != nil {
		return fmt.Errorf("final Harvest failed: %v", err)
	}
	r.cur.segs = append(r.cur.segs, last)
	r.cur.items = append(r.cur.items, r.pending...)
	r.cur.final = true
	r.done = append(r.done, r.cur)

	balanced := m.balanced()
	closeErr := b.Close()
	if balanced && closeErr != nil {
		return fmt.Errorf("balanced call sequence %s: Close() = %v", describe(c.Actions), closeErr)
	}
	if !balanced && closeErr == nil {
		return fmt.Errorf("unbalanced call sequence %s: Close() = nil", describe(c.Actions))
	}
	if balanced {
		c.verdict = "balanced"
	} else {
		c.verdict = "unbalanced"
	}

	for gi, g := range r.done {
		if err := checkGroup(c, gi, g, b.Resources, version, balanced, len(m.nest) == 0); err != nil {
			return err
		}
	}
	return nil
}

// pairCount counts the paired operators of a scanned stream without any help
// from content.State: q/Q, BT/ET, BMC|BDC/EMC, BX/EX.  It returns the number
// of pairs left open per kind and whether a closer came without an opener.
func pairCount(ops []scanned) (open map[string]int, underflow string) {
	open = map[string]int{}
	kinds := map[content.OpName]struct {
		kind  string
		delta int
	}{"q": {"q/Q", 1}, "Q": {"q/Q", -1}, "BT": {"BT/ET", 1}, "ET": {"BT/ET", -1},
		"BMC": {"BMC/EMC", 1}, "BDC": {"BMC/EMC", 1}, "EMC": {"BMC/EMC", -1},
		"BX": {"BX/EX", 1}, "EX": {"BX/EX", -1}}
	for i, op := range ops {
		if k, ok := kinds[op.Name]; ok {
			open[k.kind] += k.delta
			if open[k.kind] < 0 && underflow == "" {
				underflow = fmt.Sprintf("operator %d (%s) closes a %s pair which is not open", i, op.Name, k.kind)
			}
		}
	}
	for k, v := range open {
		if v == 0 {
			delete(open, k)
		}
	}
	return open, underflow
}

// checkClosers truncates the valid stream ops after k operators, appends
// what State.ClosingOperators asks for, and demands that the result, written
// and scanned again, is valid and balanced under the independent pair count.
func checkClosers(c *BCase, ops []scanned, k int, res *content.Resources, version pdf.Version) error {
	st := content.NewState(content.Page, res)
	st.Version = version
	out := make([]content.Operator, 0, k+4)
	for i := 0; i < k; i++ {
		if err := st.ApplyOperator(ops[i].Name, ops[i].Args); err != nil {
			return fmt.Errorf("truncation at %d: operator %d (%s) rejected: %v", k, i, ops[i].Name, err)
		}
		out = append(out, content.Operator{Name: ops[i].Name, Args: ops[i].Args})
	}
	closers := st.ClosingOperators()
	for _, name := range closers {
		out = append(out, content.Operator{Name: name})
	}
	text, err := formatOps(out)
	if err != nil {
		return err
	}
	got, err := scanBytes(text)
	if err != nil {
		return err
	}
	if len(got) != len(out) {
		return fmt.Errorf("truncation at %d + closers %v: wrote %d operators, read %d", k, closers, len(out), len(got))
	}
	open, underflow := pairCount(got)
	if underflow != "" || len(open) != 0 {
		return fmt.Errorf("truncation at %d of the stream of %s: after the closers %v of State.ClosingOperators the pairs %v are still open (%s) in %q",
			k, describe(c.Actions), closers, open, underflow, clip(text))
	}
	st2 := content.NewState(content.Page, res)
	st2.Version = version
	for i, op := range got {
		if err := st2.ApplyOperator(op.Name, op.Args); err != nil {
			return fmt.Errorf("truncation at %d + closers %v: operator %d (%s) of %q is rejected: %v", k, closers, i, op.Name, clip(text), err)
		}
	}
	if err := st2.CanClose(); err != nil {
		return fmt.Errorf("truncation at %d + closers %v: CanClose() = %v for %q", k, closers, err, clip(text))
	}
	return nil
}

// checkGroup checks one harvested content stream: the operators are the ones
// the calls document, they re-scan to themselves, and they are valid (and,
// for the last stream, balanced exactly if the model says so) for a fresh
// State of the Builder's version.
func checkGroup(c *BCase, gi int, g group, res *content.Resources, version pdf.Version, balanced, nestEmpty bool) error {
	segs := g.segs
	if len(segs) > c.segments {
		c.segments = len(segs)
	}
	var all []content.Operator
	for _, s := range segs {
		all = append(all, s.Ops...)
	}
	names := make([]string, len(all))
	want := make([]scanned, len(all))
	for i, op := range all {
		names[i] = string(op.Name)
		args := make([]pdf.Object, len(op.Args))
		for k, a := range op.Args {
			args[k] = native(a)
		}
		want[i] = scanned{Name: op.Name, Args: args}
	}
	c.names = append(c.names, names...)

	// every call emits the operators its documentation names
	if !matchNames(g.items, names) {
		return fmt.Errorf("stream %d: harvested operators %q do not match the calls %s", gi, names, describe(c.Actions))
	}

	// the harvested stream re-scans to the same operators
	var text []byte
	var got []scanned
	var err error
	if len(segs) == 1 {
		rc, err := segs[0].RawBytes()
		if err != nil {
			return err
		}
		text, err = io.ReadAll(rc)
		rc.Close()
		if err != nil {
			return err
		}
		got, err = scanBytes(text)
		if err != nil {
			return fmt.Errorf("re-scan: %v", err)
		}
	} else {
		ps := make([]page.Segment, len(segs))
		for i, s := range segs {
			ps[i] = s
		}
		text, err = io.ReadAll(page.SegmentsReader(ps))
		if err != nil {
			return err
		}
		got, err = scanAll(func() (io.ReadCloser, error) { return page.SegmentsReader(ps), nil })
		if err != nil {
			return fmt.Errorf("re-scan of %d segments: %v", len(ps), err)
		}
	}
	if g.final || c.text == nil {
		c.text = text
	}
	if err := compareOps(fmt.Sprintf("builder stream %d", gi), want, got, text); err != nil {
		return err
	}

	// ... which are valid for a fresh state of the same version: ApplyOperator
	// rejects exactly what the Builder must have rejected
	st := content.NewState(content.Page, res)
	st.Version = version
	for i, op := range got {
		if err := st.ApplyOperator(op.Name, op.Args); err != nil {
			return fmt.Errorf("replay of stream %d: operator %d (%s) of %q is rejected by a fresh State of version %s: %v; calls %s",
				gi, i, op.Name, clip(text), version, err, describe(c.Actions))
		}
	}
	// State.ClosingOperators completes every prefix of a valid stream
	for _, cut := range c.Cuts {
		if cut < 0 {
			cut = -cut
		}
		if err := checkClosers(c, got, cut%(len(got)+1), res, version); err != nil {
			return err
		}
		c.events["closers-at-truncation"] = true
	}
	if !g.final {
		// harvested before a Reset: a prefix of a valid stream, nothing more
		return nil
	}
	// the balance verdict of an independent pair count: the pairs left open
	// are exactly the ones the model has open (Close() was compared with the
	// model by the caller)
	open, underflow := pairCount(got)
	if underflow != "" {
		return fmt.Errorf("stream %q of %s: %s", clip(text), describe(c.Actions), underflow)
	}
	if nestEmpty != (len(open) == 0) {
		return fmt.Errorf("stream %q of %s: the Builder's Close() agrees with the model (pairs all closed: %v) but the stream has the pairs %v open",
			clip(text), describe(c.Actions), nestEmpty, open)
	}
	// ... and balanced
	closers := st.ClosingOperators()
	canClose := st.CanClose()
	if balanced && (canClose != nil || len(closers) != 0) {
		return fmt.Errorf("replay of %q: CanClose() = %v, ClosingOperators() = %v, want balanced", clip(text), canClose, closers)
	}
	if !balanced && (canClose == nil || len(closers) == 0) {
		return fmt.Errorf("replay of unbalanced %q: CanClose() = %v, ClosingOperators() = %v", clip(text), canClose, closers)
	}
	return nil
}

func describe(as []Action) string {
	var sb strings.Builder
	for i, a := range as {
		if i > 0 {
			sb.WriteByte(' ')
		}
		sb.WriteString(a.M)
		if a.M == "Build" {
			sb.WriteString(describe(a.Sub))
		}
		if i > 80 {
			sb.WriteString(" ...")
			break
		}
	}
	return "[" + sb.String() + "]"
}

// ---------------------------------------------------------------------------
// generator

var coord = rapid.OneOf(
	rapid.SampledFrom([]float64{0, 1, -1, 0.5, 2, 10, 72, 100, 595.276, 841.89, 1e-7, -0.001, 1234567.891, 1e10, 1.0 / 3, 0.1}),
	rapid.Float64Range(-1000, 1000),
	rapid.Custom(func(t *rapid.T) float64 { return float64(rapid.IntRange(-500, 500).Draw(t, "n")) / 4 }),
)

var unit = rapid.OneOf(rapid.SampledFrom([]float64{0, 1, 0.5, 0.25, 1.0 / 3}), rapid.Float64Range(0, 1))

var positive = rapid.OneOf(rapid.SampledFrom([]float64{1, 0.5, 2, 10, 12, 0.1, 100}), rapid.Float64Range(0.01, 500))

func floats(t *rapid.T, g *rapid.Generator[float64], n int) []float64 {
	f := make([]float64, n)
	for i := range f {
		f[i] = g.Draw(t, "f")
	}
	return f
}

// methods lists the generated methods; repeated entries raise the weight.
var methods = []string{
	"PushGraphicsState", "PushGraphicsState", "PopGraphicsState", "PopGraphicsState", "Transform",
	"SetLineWidth", "SetLineCap", "SetLineJoin", "SetMiterLimit", "SetLineDash", "SetFlatnessTolerance",
	"SetRenderingIntent", "SetFillGray", "SetFillRGB", "SetFillCMYK", "SetStrokeGray", "SetStrokeRGB", "SetStrokeCMYK",
	"MoveTo", "MoveTo", "LineTo", "LineTo", "CurveTo", "ClosePath", "Rectangle", "Rectangle", "Circle",
	"Stroke", "CloseAndStroke", "Fill", "FillEvenOdd", "FillAndStroke", "FillAndStrokeEvenOdd",
	"CloseFillAndStroke", "CloseFillAndStrokeEvenOdd", "EndPath", "ClipNonZero", "ClipEvenOdd",
	"TextBegin", "TextBegin", "TextEnd", "TextEnd",
	"TextSetCharacterSpacing", "TextSetWordSpacing", "TextSetHorizontalScaling", "TextSetLeading",
	"TextSetRenderingMode", "TextSetRise", "TextSetFont", "TextSetFont", "TextSetFont",
	"TextFirstLine", "TextSecondLine", "TextSetMatrix", "TextNextLine",
	"TextShowRaw", "TextShowRaw", "TextShowNextLineRaw", "TextShowSpacedRaw", "TextShowKernedRaw", "TextShow", "TextShow",
	"MarkedContentPoint", "MarkedContentStart", "MarkedContentStart", "MarkedContentEnd", "MarkedContentEnd",
	"DrawInlineImageRaw", "Harvest",
}

// drawAction draws the parameters for a call of the method.  wild allows
// parameters the Builder documents as invalid.
func drawAction(t *rapid.T, method string, wild bool) Action {
	a := Action{M: method}
	bad := wild && rapid.IntRange(0, 3).Draw(t, "bad") == 0
	switch method {
	case "Transform", "TextSetMatrix", "CurveTo":
		a.F = floats(t, coord, 6)
	case "MoveTo", "LineTo", "TextFirstLine", "TextSecondLine":
		a.F = floats(t, coord, 2)
	case "Rectangle":
		a.F = floats(t, coord, 4)
	case "Circle":
		a.F = append(floats(t, coord, 2), rapid.Float64Range(0.05, 900).Draw(t, "r"))
	case "SetLineWidth":
		a.F = []float64{rapid.OneOf(rapid.SampledFrom([]float64{0, 1, 0.5, 2}), rapid.Float64Range(0, 50)).Draw(t, "w")}
		if bad {
			a.F[0] = -1 - a.F[0]
		}
	case "SetLineCap", "SetLineJoin":
		a.I = rapid.IntRange(0, 2).Draw(t, "style")
		if bad {
			a.I = rapid.IntRange(3, 255).Draw(t, "badstyle")
		}
	case "SetMiterLimit":
		a.F = []float64{rapid.Float64Range(1, 100).Draw(t, "miter")}
		if bad {
			a.F[0] = rapid.Float64Range(-5, 0.99).Draw(t, "badmiter")
		}
	case "SetLineDash":
		n := rapid.IntRange(0, 4).Draw(t, "ndash")
		a.F = floats(t, positive, n+1) // pattern and phase
	case "SetFlatnessTolerance":
		a.F = []float64{rapid.Float64Range(0, 100).Draw(t, "flat")}
		if bad {
			a.F[0] = 100.5 + a.F[0]
		}
	case "SetRenderingIntent":
		a.I = rapid.IntRange(0, 3).Draw(t, "intent")
	case "SetFillGray", "SetStrokeGray":
		a.F = floats(t, unit, 1)
	case "SetFillRGB", "SetStrokeRGB":
		a.F = floats(t, unit, 3)
	case "SetFillCMYK", "SetStrokeCMYK":
		a.F = floats(t, unit, 4)
	case "TextSetCharacterSpacing", "TextSetWordSpacing", "TextSetLeading", "TextSetRise":
		a.F = floats(t, coord, 1)
	case "TextSetHorizontalScaling":
		a.F = []float64{rapid.SampledFrom([]float64{1, 0.5, 1.5, 2, 0.9}).Draw(t, "scale")}
	case "TextSetRenderingMode":
		a.I = rapid.IntRange(0, 7).Draw(t, "mode")
		if bad {
			a.I = rapid.IntRange(8, 255).Draw(t, "badmode")
		}
	case "TextSetFont":
		a.I = rapid.IntRange(0, 1).Draw(t, "font")
		a.F = []float64{rapid.SampledFrom([]float64{10, 12, 8.5, 24, 50, 1}).Draw(t, "size")}
	case "TextShowRaw", "TextShowNextLineRaw":
		a.S = genHostileBytes.Draw(t, "s")
	case "TextShowSpacedRaw":
		a.F = floats(t, coord, 2)
		a.S = genHostileBytes.Draw(t, "s")
	case "TextShowKernedRaw":
		a.F = floats(t, coord, rapid.IntRange(0, 4).Draw(t, "nkern"))
		a.S = genHostileBytes.Draw(t, "s")
	case "TextShow":
		a.S = gen.Hex(rapid.StringMatching(`[ -~]{1,20}`).Draw(t, "text"))
	case "MarkedContentPoint", "MarkedContentStart":
		a.S = genHostileBytes.Draw(t, "tag")
		if method == "MarkedContentStart" && rapid.Bool().Draw(t, "props") {
			a.I = 1
		}
	case "DrawInlineImageRaw":
		img := drawImage(t)
		d := relaxNilDict(img.Args[0])
		a.D, a.S = d.D, img.Args[1].S
	}
	if bad && strings.HasPrefix(method, "Set") && (strings.HasSuffix(method, "Gray") || strings.HasSuffix(method, "RGB") || strings.HasSuffix(method, "CMYK")) {
		k := rapid.IntRange(0, len(a.F)-1).Draw(t, "badcomp")
		a.F[k] = rapid.SampledFrom([]float64{-0.5, 1.5, 2, -1e-9, 1.0000001}).Draw(t, "badval")
	}
	return a
}

var (
	textMethods = []string{"TextShowRaw", "TextShowNextLineRaw", "TextShowSpacedRaw", "TextShowKernedRaw", "TextShow",
		"TextShow", "TextFirstLine", "TextSecondLine", "TextSetMatrix", "TextNextLine", "TextSetFont", "TextEnd",
		"TextSetCharacterSpacing", "TextSetRise", "SetFillGray", "MarkedContentStart", "MarkedContentEnd"}
	pageMethods = []string{"TextBegin", "TextBegin", "TextBegin", "MoveTo", "Rectangle", "Circle", "PushGraphicsState",
		"PopGraphicsState", "MarkedContentStart", "MarkedContentEnd", "DrawInlineImageRaw", "TextSetFont", "Transform",
		"SetLineWidth", "SetStrokeRGB", "SetLineDash", "Harvest"}
	pathMethods = []string{"LineTo", "LineTo", "CurveTo", "ClosePath", "Rectangle", "MoveTo", "Circle", "Stroke", "Fill",
		"FillAndStroke", "CloseFillAndStrokeEvenOdd", "EndPath", "ClipNonZero", "ClipEvenOdd", "TextSetLeading"}
)

// pickMethod draws a method name; inside text objects and paths the methods
// which belong there are preferred, so that sequences get somewhere.
func pickMethod(t *rapid.T, m *model, wild bool) string {
	if !wild && rapid.Bool().Draw(t, "focus") {
		switch m.obj {
		case ctxText:
			if !m.font && rapid.Bool().Draw(t, "needfont") {
				return "TextSetFont"
			}
			return rapid.SampledFrom(textMethods).Draw(t, "method")
		case ctxPath, ctxClip:
			return rapid.SampledFrom(pathMethods).Draw(t, "method")
		default:
			return rapid.SampledFrom(pageMethods).Draw(t, "method")
		}
	}
	return rapid.SampledFrom(methods).Draw(t, "method")
}

// closers returns the calls which close what the model has open, innermost
// first, and applies them to the model.
func closers(t *rapid.T, m *model) []Action {
	var out []Action
	if m.obj == ctxPath || m.obj == ctxClip {
		a := Action{M: rapid.SampledFrom([]string{"EndPath", "Fill", "Stroke", "CloseFillAndStrokeEvenOdd"}).Draw(t, "paint")}
		m.step(&a)
		out = append(out, a)
	}
	for len(m.nest) > 0 {
		a := Action{M: map[byte]string{'q': "PopGraphicsState", 'T': "TextEnd", 'M': "MarkedContentEnd"}[m.top()]}
		if v, _, _ := m.step(&a); v != accept {
			break
		}
		out = append(out, a)
	}
	return out
}

// genSeq draws up to n calls which the model accepts (one of them, at
// position wildAt, may be invalid) and advances the model.  At the top level
// Reset and Build calls are mixed in.
func genSeq(t *rapid.T, m *model, n, wildAt int, top bool) (acts []Action, rejected bool) {
	for len(acts) < n && !rejected {
		if top {
			switch rapid.IntRange(0, 49).Draw(t, "restart") {
			case 0:
				a := Action{M: "Reset"}
				m.step(&a)
				acts = append(acts, a)
				continue
			case 1:
				a, rej := genBuild(t, m)
				acts = append(acts, a)
				rejected = rej
				continue
			}
		}
		wild := len(acts) == wildAt
		var a Action
		for try := 0; ; try++ {
			a = drawAction(t, pickMethod(t, m, wild), wild)
			if !top && a.M == "Harvest" {
				continue
			}
			v, _, _ := m.clone().step(&a)
			if v == accept || (wild && v == reject) {
				break
			}
			if v == either && rapid.IntRange(0, 2).Draw(t, "overlap") == 0 {
				break
			}
			if try > 20 {
				a = Action{M: "TextSetLeading", F: []float64{12}}
				break
			}
		}
		v, _, _ := m.step(&a)
		acts = append(acts, a)
		rejected = v == reject
	}
	return acts, rejected
}

// genBuild draws a Build call.  Build starts from a reset Builder; when it
// succeeds the graphics state simply continues, so the model continues with
// the state at the end of the sequence.
func genBuild(t *rapid.T, m *model) (Action, bool) {
	m.reset()
	n := rapid.IntRange(0, 12).Draw(t, "nbuild")
	wildAt := -1
	if n > 0 && rapid.IntRange(0, 7).Draw(t, "buildwild") == 0 {
		wildAt = rapid.IntRange(0, n-1).Draw(t, "buildwildat")
	}
	sub, rejected := genSeq(t, m, n, wildAt, false)
	if !rejected && rapid.IntRange(0, 19).Draw(t, "buildclose") != 0 {
		sub = append(sub, closers(t, m)...)
	}
	return Action{M: "Build", Sub: sub}, rejected || !m.balanced()
}

// qScenario draws a case around the q/Q rules of PDF 1.x: 26-29 nested q and
// q inside a text object, before or after the Builder went through Harvest,
// Reset or Build.
func qScenario(t *rapid.T, c *BCase, m *model) {
	add := func(dst *[]Action, mm *model, name string) bool {
		a := Action{M: name}
		v, _, _ := mm.step(&a)
		*dst = append(*dst, a)
		return v == accept
	}
	body := func(dst *[]Action, mm *model) bool {
		k := rapid.SampledFrom([]int{0, 1, 26, 27, 28, 29}).Draw(t, "qdepth")
		for range k {
			if !add(dst, mm, "PushGraphicsState") {
				return false
			}
		}
		switch rapid.IntRange(0, 3).Draw(t, "qtail") {
		case 0:
			if !add(dst, mm, "TextBegin") || !add(dst, mm, "PushGraphicsState") {
				return false
			}
			if rapid.Bool().Draw(t, "qtext") {
				a := drawAction(t, "TextSetFont", false)
				mm.step(&a)
				*dst = append(*dst, a)
				a = drawAction(t, "TextShowRaw", false)
				mm.step(&a)
				*dst = append(*dst, a)
			}
		case 1:
			if !add(dst, mm, "PushGraphicsState") {
				return false
			}
		case 2:
			r := drawAction(t, "Rectangle", false)
			mm.step(&r)
			*dst = append(*dst, r)
			if !add(dst, mm, "PushGraphicsState") { // q inside a path: invalid in every version
				return false
			}
		}
		return true
	}

	pre, rejected := genSeq(t, m, rapid.IntRange(0, 4).Draw(t, "npre"), -1, false)
	c.Actions = append(c.Actions, pre...)
	if rejected {
		return
	}
	switch rapid.SampledFrom([]string{"none", "Reset", "Harvest", "Harvest+Reset", "in-Build", "after-Build", "after-Build", "Reset"}).Draw(t, "restartkind") {
	case "none":
		c.Actions = append(c.Actions, closers(t, m)...)
	case "Reset":
		add(&c.Actions, m, "Reset")
	case "Harvest":
		c.Actions = append(c.Actions, closers(t, m)...)
		add(&c.Actions, m, "Harvest")
	case "Harvest+Reset":
		add(&c.Actions, m, "Harvest")
		add(&c.Actions, m, "Reset")
	case "in-Build":
		m.reset()
		var sub []Action
		ok := body(&sub, m)
		if ok {
			sub = append(sub, closers(t, m)...)
		}
		c.Actions = append(c.Actions, Action{M: "Build", Sub: sub})
		if !ok || !m.balanced() {
			return
		}
	case "after-Build":
		m.reset()
		sub, rej := genSeq(t, m, rapid.IntRange(0, 5).Draw(t, "nsub"), -1, false)
		sub = append(sub, closers(t, m)...)
		c.Actions = append(c.Actions, Action{M: "Build", Sub: sub})
		if rej || !m.balanced() {
			return
		}
	}
	if body(&c.Actions, m) && rapid.IntRange(0, 7).Draw(t, "close") != 0 {
		c.Actions = append(c.Actions, closers(t, m)...)
	}
}

// overlapScenario draws a case in which two or three pairs of different
// kinds (q/Q, BT/ET, BMC|BDC/EMC) are opened and then closed in an arbitrary
// order, each closer present three times in four: q BMC Q, BMC q EMC, BT q ET,
// q BMC Q EMC, ...
func overlapScenario(t *rapid.T, c *BCase, m *model) {
	pre, rejected := genSeq(t, m, rapid.IntRange(0, 3).Draw(t, "npre"), -1, false)
	c.Actions = append(c.Actions, pre...)
	if rejected {
		return
	}
	if m.obj != ctxPage && m.obj != ctxText {
		c.Actions = append(c.Actions, closers(t, m)...)
	}
	step := func(a Action) bool {
		v, _, _ := m.step(&a)
		c.Actions = append(c.Actions, a)
		return v != reject && v != unmodelled
	}
	filler := func() bool {
		acts, rej := genSeq(t, m, rapid.IntRange(0, 2).Draw(t, "nfill"), -1, false)
		c.Actions = append(c.Actions, acts...)
		if !rej && (m.obj == ctxPath || m.obj == ctxClip) {
			return step(Action{M: "EndPath"})
		}
		return !rej
	}
	closerOf := map[string]string{"PushGraphicsState": "PopGraphicsState", "TextBegin": "TextEnd", "MarkedContentStart": "MarkedContentEnd"}
	kinds := rapid.Permutation([]string{"PushGraphicsState", "TextBegin", "MarkedContentStart"}).Draw(t, "openers")
	kinds = kinds[:rapid.IntRange(2, 3).Draw(t, "nkinds")]
	var opened []string
	for _, k := range kinds {
		a := Action{M: k}
		if k == "MarkedContentStart" {
			a = drawAction(t, k, false)
		}
		if v, _, _ := m.clone().step(&a); v != accept {
			continue // e.g. BT inside a text object, q in text before 2.0
		}
		step(a)
		opened = append(opened, closerOf[k])
		if !filler() {
			return
		}
	}
	if len(opened) == 0 {
		return
	}
	// outer-first order is the interesting one; other orders appear too
	order := opened
	if rapid.IntRange(0, 2).Draw(t, "shuffle") == 0 {
		order = rapid.Permutation(opened).Draw(t, "closeorder")
	}
	for _, k := range order {
		if rapid.IntRange(0, 3).Draw(t, "skipcloser") == 0 {
			continue
		}
		if !step(Action{M: k}) {
			return
		}
		if rapid.Bool().Draw(t, "fill") && !filler() {
			return
		}
	}
	if rapid.IntRange(0, 3).Draw(t, "closerest") == 0 {
		c.Actions = append(c.Actions, closers(t, m)...)
	}
}

func genBCase(t *rapid.T) BCase {
	c := BCase{V2: rapid.IntRange(0, 2).Draw(t, "v2") == 0}
	for range rapid.IntRange(0, 3).Draw(t, "ncuts") {
		c.Cuts = append(c.Cuts, rapid.IntRange(0, 200).Draw(t, "cut"))
	}
	m := newModel(c.V2)
	switch rapid.IntRange(0, 9).Draw(t, "scenario") {
	case 0:
		qScenario(t, &c, m)
		return c
	case 1, 2:
		overlapScenario(t, &c, m)
		return c
	}
	n := rapid.IntRange(0, 40).Draw(t, "n")
	wildAt := -1 // position of a call which may be invalid
	if n > 0 && rapid.IntRange(0, 3).Draw(t, "haswild") == 0 {
		wildAt = rapid.IntRange(0, n-1).Draw(t, "wildat")
	}
	var rejected bool
	c.Actions, rejected = genSeq(t, m, n, wildAt, true)
	if !rejected && rapid.IntRange(0, 7).Draw(t, "close") != 0 {
		c.Actions = append(c.Actions, closers(t, m)...)
	}
	return c
}

// ---------------------------------------------------------------------------

var builderProp = &vt.Prop[BCase]{
	Property: propID,
	Kind:     "c15-builder",
	Gen:      genBCase,
	Check:    checkBuilder,
	Classify: func(c *BCase) (bool, []string) {
		set := map[string]bool{c.verdict: true}
		if c.verdict == "rejected" || c.verdict == "unmodelled" {
			set[c.verdict+": "+c.reason] = true
		}
		for _, n := range c.names {
			switch n {
			case "Tj", "TJ", "'", "\"":
				set["shows-text"] = true
			case "q":
				set["has-q"] = true
			case "BMC", "BDC":
				set["marked-content"] = true
			case "W", "W*":
				set["clip"] = true
			case nameImage:
				set["inline-image"] = true
			case "m", "re":
				set["path"] = true
			case "g", "G", "rg", "RG", "k", "K":
				set["colour"] = true
			case "w", "J", "j", "M", "d":
				set["line-style"] = true
			}
		}
		for e := range c.events {
			set[e] = true
		}
		if c.segments > 1 {
			set["several-segments"] = true
		}
		if c.maxNesting >= 3 {
			set["nesting>=3"] = true
		}
		if c.V2 {
			set["pdf-2.0"] = true
		}
		cls := make([]string, 0, len(set))
		for k := range set {
			if k != "" {
				cls = append(cls, k)
			}
		}
		sort.Strings(cls)
		nt := (c.verdict == "balanced" || c.verdict == "unbalanced") && len(c.names) >= 3 || c.verdict == "rejected"
		return nt, cls
	},
	Render: func(c *BCase) any {
		return map[string]any{"v2": c.V2, "calls": describe(c.Actions), "verdict": c.verdict, "reason": c.reason,
			"text": string(clip(c.text))}
	},
}

func init() { vt.Register(builderProp) }

func TestBuilder(t *testing.T) {
	builderProp.Run(t, vt.NewStats(propID, "builder"))
}
