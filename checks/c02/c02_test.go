// Package c02 checks property C02: file round trip through Writer and Reader.
package c02

import (
	"fmt"
	"testing"

	"pgregory.net/rapid"
	"seehuhn.de/go/pdf/verif/internal/vt"
	"seehuhn.de/go/pdf/verif/internal/wprog"
)

func TestMain(m *testing.M) { vt.Main(m) }

const property = "C02"

// Case wraps a write program.
type Case struct {
	Prog wprog.Program `json:"prog"`

	res *wprog.Result
}

func checkCase(c *Case) error {
	p := &c.Prog
	res := p.Run(p.NewSink())
	c.res = res
	if res.WriterErr != nil {
		// the generator only produces programs inside the documented domain,
		// so every Writer error is a violation
		return fmt.Errorf("the Writer rejected an admissible program at %s: %v", res.ErrAt, res.WriterErr)
	}
	if res.Mutated != nil {
		return res.Mutated
	}
	for _, pw := range p.Passwords() {
		if err := wprog.VerifyRead(p, res, res.Data, pw); err != nil {
			return fmt.Errorf("[%s, password %q] %v", p.Cipher(), pw, err)
		}
	}
	return nil
}

var prop = &vt.Prop[Case]{
	Property: property,
	Kind:     "c02-program",
	Gen: func(t *rapid.T) Case {
		return Case{Prog: wprog.Gen(wprog.Opts{AllowSparse: true, AllowBulk: true}).Draw(t, "prog")}
	},
	Check: checkCase,
	Classify: func(c *Case) (bool, []string) {
		return c.Prog.NonTrivial(), c.Prog.Classes(c.res)
	},
	Excluded: func(c *Case) []string {
		if c.Prog.SparseCapped > 0 {
			return []string{wprog.FindingSparseXRef}
		}
		return nil
	},
	Render: func(c *Case) any {
		var ops []string
		for _, a := range c.Prog.Actions {
			s := a.Op
			if len(a.Filters) > 0 {
				s += fmt.Sprint(a.Filters)
			}
			if len(a.During) > 0 {
				s += fmt.Sprintf("{+%d during}", len(a.During))
			}
			ops = append(ops, s)
		}
		n := 0
		if c.res != nil {
			n = len(c.res.Data)
		}
		return map[string]any{"version": wprog.Versions[c.Prog.Version].String(), "human": c.Prog.HumanReadable,
			"seekable": c.Prog.Seekable, "cipher": c.Prog.Cipher(), "ops": ops, "file_bytes": n}
	},
}

func init() { vt.Register(prop) }

func TestRandom(t *testing.T) { prop.Run(t, vt.NewStats(property, "random")) }

func TestReplay(t *testing.T) { vt.RunReplay(t) }
