package sched

import (
	"sync"
	"testing"
	"time"
)

// program: n workers, each passing k park points that append to a shared log;
// returns the number of distinct logs over all schedules.
func interleavings(t *testing.T, n, k int) int {
	count := 0
	seen := map[string]bool{}
	ex := &Explorer{}
	_, complete, err := ex.Explore(func(prefix []int, _ bool) ([]int, bool) {
		var c *Controller
		var log []byte
		c = New(prefix, Options{Classify: func(int, string) Action { return Action{Park: true} }})
		fns := make([]func(), n)
		for w := 0; w < n; w++ {
			fns[w] = func() {
				for i := 0; i < k; i++ {
					log = append(log, byte('a'+w))
					c.Yield("p")
				}
			}
		}
		res := c.Run(fns)
		if res.Deadlock || res.Stuck || res.Overrun || len(res.Panics) > 0 {
			t.Fatalf("unexpected result %+v", res)
		}
		seen[string(log)] = true
		count++
		return res.Alternatives(), true
	})
	if err != nil || !complete {
		t.Fatalf("explore: %v complete=%v", err, complete)
	}
	if count < len(seen) {
		t.Fatalf("%d runs, %d distinct logs", count, len(seen))
	}
	return len(seen)
}

func TestExploreCountsInterleavings(t *testing.T) {
	// every worker has k+1 segments, but its last segment (after the last
	// yield) is empty, so the log distinguishes the orders of k steps each
	if got := interleavings(t, 2, 2); got != 6 {
		t.Errorf("2 workers x 2 steps: %d distinct orders, want C(4,2)=6", got)
	}
	if got := interleavings(t, 3, 1); got != 6 {
		t.Errorf("3 workers x 1 step: %d distinct orders, want 3!=6", got)
	}
	if got := interleavings(t, 3, 2); got != 90 {
		t.Errorf("3 workers x 2 steps: %d distinct orders, want 6!/(2!2!2!)=90", got)
	}
}

func TestShardingPartitions(t *testing.T) {
	total := 0
	for _, nshards := range []int{1, 3} {
		sum := 0
		for s := 0; s < nshards; s++ {
			ex := &Explorer{Split: 2, Mine: func(u int) bool { return u%nshards == s }}
			runs, complete, err := ex.Explore(func(prefix []int, mine bool) ([]int, bool) {
				var c *Controller
				c = New(prefix, Options{Classify: func(int, string) Action { return Action{Park: true} }})
				fn := func() { c.Yield("a"); c.Yield("b"); c.Yield("c") }
				res := c.Run([]func(){fn, fn, fn})
				return res.Alternatives(), true
			})
			if err != nil || !complete {
				t.Fatal(err, complete)
			}
			sum += runs
		}
		if total == 0 {
			total = sum
		} else if sum != total {
			t.Errorf("%d shards counted %d runs, one shard %d", nshards, sum, total)
		}
	}
}

func TestWaitSignalAndDeadlock(t *testing.T) {
	// worker 0 waits for a token that worker 1 signals: never a deadlock
	var c *Controller
	classify := func(w int, p string) Action {
		switch p {
		case "wait":
			return Action{Wait: "tok"}
		case "signal":
			return Action{Signal: "tok"}
		}
		return Action{Park: true}
	}
	for _, sched := range [][]int{{0, 0, 0}, {1, 1, 1}, {0, 1, 0, 1}} {
		c = New(sched, Options{Classify: classify})
		res := c.Run([]func(){
			func() { c.Yield("wait") },
			func() { c.Yield("p"); c.Yield("signal") },
		})
		if res.Deadlock || res.Stuck {
			t.Errorf("schedule %v: %+v", sched, res)
		}
	}
	// nobody signals: deadlock, reported and unwound
	c = New(nil, Options{Classify: classify})
	res := c.Run([]func(){func() { c.Yield("wait") }, func() { c.Yield("p") }})
	if !res.Deadlock || len(res.Blocked) != 1 || res.Blocked[0].Worker != 0 {
		t.Errorf("expected deadlock of worker 0, got %+v", res)
	}
	// a guard that is false forever
	c = New(nil, Options{Classify: func(int, string) Action {
		return Action{Park: true, Guard: func() bool { return false }, GuardName: "never"}
	}})
	res = c.Run([]func(){func() { c.Yield("g") }})
	if !res.Deadlock {
		t.Errorf("expected deadlock on a false guard, got %+v", res)
	}
}

func TestStuckOnlyWhenBlocked(t *testing.T) {
	// a slow but running worker is waited for
	var c *Controller
	c = New(nil, Options{Watchdog: 20 * time.Millisecond})
	res := c.Run([]func(){func() {
		for t0 := time.Now(); time.Since(t0) < 150*time.Millisecond; {
		}
	}})
	if res.Stuck {
		t.Errorf("a spinning worker was called stuck (state %q)", res.StuckState)
	}
	// a worker blocked on a mutex is stuck
	var mu sync.Mutex
	mu.Lock()
	c = New(nil, Options{Watchdog: 20 * time.Millisecond})
	res = c.Run([]func(){func() { mu.Lock() }})
	if !res.Stuck || res.StuckState == "running" || res.StuckState == "runnable" {
		t.Errorf("expected a stuck run, got stuck=%v state=%q", res.Stuck, res.StuckState)
	}
	mu.Unlock()
}
