// Package sched is a cooperative scheduler that drives real goroutines one at
// a time through code instrumented with yield points, so that a test can choose
// (enumerate, sample, replay) the interleaving.
//
// Model.  A run has n workers (goroutines).  Exactly one worker holds the
// "running" token at any time; the controller (the goroutine that called
// [Controller.Run]) holds it between two workers.  The instrumented code calls
// [Controller.Yield] at every yield point.  The Classify callback supplied by
// the caller says what a point means:
//
//   - a pass point is only recorded; the worker keeps the token and continues;
//   - a park point is a decision point: the worker hands the token back, the
//     controller computes the set of enabled workers and picks one of them;
//   - a parked worker may carry a guard (Action.Guard): it is enabled only while
//     the guard is true.  The caller uses this to model "about to lock a mutex":
//     the worker is enabled only while the mutex is free;
//   - a parked worker may wait for a token (Action.Wait): it stays disabled until
//     some worker passes a point whose Action.Signal equals that token.  The
//     caller uses this to model a blocking channel receive: the point in front
//     of the receive waits, the point after close() in the owner signals.  The
//     worker is resumed only after the signal, so the real receive never blocks
//     and no worker ever holds the token while blocked in the Go runtime.
//
// The schedule is the sequence of picks: entry i, taken modulo the number of
// enabled workers at decision i, indexes the enabled workers in increasing
// order of worker id.  Decisions beyond the end of the schedule pick index 0.
//
// If no worker is enabled while some have not finished, the run is a deadlock;
// the controller reports it (with what every unfinished worker waits for) and
// unwinds the parked workers by panicking inside their Yield call.  A worker
// that does not come back to the controller within the watchdog time (it is
// blocked in the Go runtime, which the model did not foresee, or it spins) makes
// the run "stuck": that is a failure of the harness model, not a verdict.
package sched

import (
	"fmt"
	"regexp"
	"runtime"
	"strings"
	"time"
)

// Action is the classification of one yield point occurrence.
type Action struct {
	// Park makes the point a decision point.
	Park bool
	// Guard, if non-nil, must return true for the parked worker to be
	// enabled.  It is evaluated by the controller while no worker runs.
	Guard func() bool
	// GuardName describes the guard in deadlock reports.
	GuardName string
	// Wait, if non-nil, parks the worker (whatever Park says) until Signal
	// with an equal value has been given (before or after this point).
	Wait any
	// Signal, if non-nil, enables every worker waiting for an equal value.
	Signal any
}

// Decision records one pick of the controller.
type Decision struct {
	N      int    // number of enabled workers
	Pick   int    // index that was picked (0 <= Pick < N)
	Worker int    // id of the picked worker
	Point  string // the point at which the picked worker was parked
}

// Blocked describes an unfinished worker in a deadlock report.
type Blocked struct {
	Worker int
	Point  string
	Why    string
}

// Result is what one run did.
type Result struct {
	Decisions []Decision
	// Deadlock: no worker was enabled although some had not finished.
	Deadlock bool
	Blocked  []Blocked
	// Overrun: more than MaxDecisions decisions were needed.
	Overrun bool
	// Stuck: the worker holding the token did not return to the controller
	// within the watchdog time.  Dump holds all goroutine stacks.
	Stuck       bool
	StuckWorker int
	StuckPoint  string
	StuckState  string // goroutine state of the worker ("sync.Mutex.Lock", "chan receive", ...)
	Dump        string
	// Panics holds the value a worker function panicked with (by worker id).
	Panics map[int]any
	// Passes counts pass points.
	Passes int
}

// Picks returns the canonical schedule of the run (the index picked at every
// decision).
func (r *Result) Picks() []int {
	out := make([]int, len(r.Decisions))
	for i, d := range r.Decisions {
		out[i] = d.Pick
	}
	return out
}

// Alternatives returns the number of enabled workers at every decision.
func (r *Result) Alternatives() []int {
	out := make([]int, len(r.Decisions))
	for i, d := range r.Decisions {
		out[i] = d.N
	}
	return out
}

// Options configure a run.
type Options struct {
	// Classify is called on the worker's goroutine (which holds the token) at
	// every yield point.  It may update the caller's own bookkeeping.
	Classify func(worker int, point string) Action
	// MaxDecisions bounds the length of a run (default 100000).
	MaxDecisions int
	// Watchdog is the time after which the controller looks at the state of
	// the running worker's goroutine (default 20 s): a goroutine that is
	// blocked in the runtime makes the run stuck, one that is running or
	// runnable (a starved process) is waited for, up to GiveUp (default
	// 15 min) in all.  Both only matter when something is wrong.
	Watchdog time.Duration
	GiveUp   time.Duration
}

type abortSignal struct{}

type evKind int

const (
	evParked evKind = iota
	evDone
)

type event struct {
	w    int
	kind evKind
}

type worker struct {
	id      int
	resume  chan bool // true: abort
	done    bool
	started bool
	point   string
	guard   func() bool
	gname   string
	wait    any
	waiting bool
}

// Controller runs one program under one schedule.
type Controller struct {
	opt       Options
	schedule  []int
	workers   []*worker
	events    chan event
	current   int // worker holding the token, -1: the controller
	signalled map[any]bool
	res       Result
}

// New creates a controller for the given schedule.
func New(schedule []int, opt Options) *Controller {
	if opt.MaxDecisions <= 0 {
		opt.MaxDecisions = 100000
	}
	if opt.Watchdog <= 0 {
		opt.Watchdog = 20 * time.Second
	}
	if opt.GiveUp <= 0 {
		opt.GiveUp = 15 * time.Minute
	}
	return &Controller{opt: opt, schedule: schedule, current: -1, signalled: map[any]bool{}}
}

// Current returns the id of the worker that holds the token, or -1.  It may
// only be called from the goroutine that holds the token (a worker inside the
// instrumented code) or from the controller's goroutine.
func (c *Controller) Current() int { return c.current }

// Yield is called by the instrumented code at a yield point.  Calls from a
// goroutine that is not the running worker of this controller are ignored
// (there is none while the controller holds the token).
func (c *Controller) Yield(point string) {
	if c.current < 0 {
		return
	}
	w := c.workers[c.current]
	var a Action
	if c.opt.Classify != nil {
		a = c.opt.Classify(w.id, point)
	}
	if a.Signal != nil {
		c.signalled[a.Signal] = true
		for _, v := range c.workers {
			if v.waiting && v.wait == a.Signal {
				v.waiting = false
			}
		}
	}
	if !a.Park && a.Wait == nil {
		c.res.Passes++
		return
	}
	w.point, w.guard, w.gname = point, a.Guard, a.GuardName
	w.wait, w.waiting = a.Wait, a.Wait != nil && !c.signalled[a.Wait]
	c.park(w)
}

//go:noinline
func (c *Controller) park(w *worker) {
	c.events <- event{w: w.id, kind: evParked}
	if abort := <-w.resume; abort {
		panic(abortSignal{})
	}
}

// Run starts one goroutine per function, drives them according to the
// schedule until all have finished (or the run fails) and returns the record.
// The functions run one at a time; everything they do between two yield points
// is one atomic step of the interleaving.
func (c *Controller) Run(fns []func()) *Result {
	n := len(fns)
	c.workers = make([]*worker, n)
	c.events = make(chan event)
	c.res.Panics = map[int]any{}
	finished := make(chan struct{}, n)
	for i := range fns {
		w := &worker{id: i, resume: make(chan bool, 1), point: "start"}
		c.workers[i] = w
		go c.runWorker(w, fns[i], finished)
	}

	timer := time.NewTimer(c.opt.Watchdog)
	defer timer.Stop()
	var enabled []*worker
	for {
		enabled = enabled[:0]
		unfinished := 0
		for _, w := range c.workers {
			if w.done {
				continue
			}
			unfinished++
			if w.waiting {
				continue
			}
			if w.guard != nil && !w.guard() {
				continue
			}
			enabled = append(enabled, w)
		}
		if unfinished == 0 {
			break
		}
		if len(enabled) == 0 {
			c.res.Deadlock = true
			for _, w := range c.workers {
				if w.done {
					continue
				}
				why := "guard false: " + w.gname
				if w.waiting {
					why = fmt.Sprintf("waits for %v", w.wait)
				}
				c.res.Blocked = append(c.res.Blocked, Blocked{Worker: w.id, Point: w.point, Why: why})
			}
			c.abort(finished)
			return &c.res
		}
		step := len(c.res.Decisions)
		if step >= c.opt.MaxDecisions {
			c.res.Overrun = true
			c.abort(finished)
			return &c.res
		}
		pick := 0
		if step < len(c.schedule) {
			pick = c.schedule[step] % len(enabled)
			if pick < 0 {
				pick += len(enabled)
			}
		}
		w := enabled[pick]
		c.res.Decisions = append(c.res.Decisions, Decision{N: len(enabled), Pick: pick, Worker: w.id, Point: w.point})
		w.guard, w.wait = nil, nil
		c.current = w.id
		w.resume <- false
		for waited := time.Duration(0); ; {
			select {
			case <-c.events:
				c.current = -1
			case <-timer.C:
				// Is the worker blocked in the Go runtime, or is this process
				// just starved?  Only a goroutine that is neither running nor
				// runnable is stuck.
				timer.Reset(c.opt.Watchdog)
				waited += c.opt.Watchdog
				state, dump := tokenHolderState()
				select {
				case <-c.events: // the worker is back (it may have been seen in its send)
					c.current = -1
				default:
					if (state == "running" || state == "runnable" || state == "unknown") && waited < c.opt.GiveUp {
						continue
					}
					c.res.Stuck = true
					c.res.StuckWorker = w.id
					c.res.StuckPoint = w.point
					c.res.StuckState = state
					c.res.Dump = dump
					// the goroutines of this run are leaked: nothing can be
					// done about a goroutine blocked in the runtime
					return &c.res
				}
			}
			break
		}
	}
	for range c.workers {
		<-finished
	}
	return &c.res
}

// runWorker is the body of a worker goroutine.
//
//go:noinline
func (c *Controller) runWorker(w *worker, fn func(), finished chan struct{}) {
	defer func() { finished <- struct{}{} }()
	if abort := c.awaitStart(w); abort {
		return
	}
	w.started = true
	defer func() {
		if r := recover(); r != nil {
			if _, ok := r.(abortSignal); ok {
				return // unwound by the controller; it is not waiting
			}
			c.res.Panics[w.id] = r
		}
		w.done = true
		c.current = -1
		c.events <- event{w: w.id, kind: evDone}
	}()
	fn()
}

//go:noinline
func (c *Controller) awaitStart(w *worker) bool { return <-w.resume }

var goroutineState = regexp.MustCompile(`^goroutine \d+ \[([^\],]+)`)

// tokenHolderState finds the worker goroutine that is neither parked nor
// waiting for its start (that is the one holding the token) in a dump of all
// goroutines and returns its state.
func tokenHolderState() (state, dump string) {
	buf := make([]byte, 4<<20)
	dump = string(buf[:runtime.Stack(buf, true)])
	for _, block := range strings.Split(dump, "\n\n") {
		if !strings.Contains(block, "sched.(*Controller).runWorker") ||
			strings.Contains(block, "sched.(*Controller).park") ||
			strings.Contains(block, "sched.(*Controller).awaitStart") {
			continue
		}
		if m := goroutineState.FindStringSubmatch(block); m != nil {
			return m[1], dump
		}
	}
	return "unknown", dump
}

// abort unwinds every unfinished worker (all of them are parked).
func (c *Controller) abort(finished chan struct{}) {
	c.current = -1
	for _, w := range c.workers {
		if !w.done {
			w.resume <- true
		}
	}
	for range c.workers {
		<-finished
	}
}

// Explorer enumerates all schedules of deterministic programs depth first and
// stateless: the program is re-run from scratch for every schedule.
//
// Run is called with a schedule prefix; it must execute the program under it
// (decisions beyond the prefix pick index 0) and return the number of
// alternatives at every decision of that run, or ok=false to stop the whole
// enumeration.  The run under a prefix is the leftmost leaf of the sub-tree
// below that prefix; the explorer then branches at every later decision of
// that run, deepest first, so every schedule is run exactly once.
//
// Sharding.  The tree is cut at depth Split: every node at depth <= Split is a
// unit of work, consisting of the leftmost run below the node and of all
// sub-trees that branch off that run at depth >= Split.  Units are numbered in
// traversal order, across all programs explored with the same Explorer, and
// Mine says which units belong to this process.  Runs of foreign units are
// only made where their alternatives are needed to find the units (nodes above
// the cut); Run is told whether the run counts (mine) or not.
type Explorer struct {
	Split int
	Mine  func(unit int) bool
	// Limit bounds the number of counted runs per Explore call (0: none).
	Limit int

	unit int
}

// Explore enumerates the schedules of one program.  It returns the number of
// counted runs, whether the enumeration was complete (not stopped by Run or
// by Limit), and an error if the program turned out not to be deterministic
// under the scheduler.
func (e *Explorer) Explore(run func(prefix []int, mine bool) (alts []int, ok bool)) (runs int, complete bool, err error) {
	stopped := false
	var rec func(prefix []int, mine bool, known []int)
	rec = func(prefix []int, mine bool, known []int) {
		if stopped {
			return
		}
		if len(prefix) <= e.Split {
			mine = e.Mine == nil || e.Mine(e.unit)
			e.unit++
			if !mine && len(prefix) == e.Split {
				return
			}
		}
		if e.Limit > 0 && runs >= e.Limit {
			stopped = true
			return
		}
		alts, ok := run(prefix, mine)
		if mine {
			runs++
		}
		if !ok {
			stopped = true
			return
		}
		if len(alts) < len(prefix) {
			err = fmt.Errorf("sched: run under prefix %v made only %d decisions", prefix, len(alts))
			stopped = true
			return
		}
		for i := range known {
			if alts[i] != known[i] {
				err = fmt.Errorf("sched: nondeterministic program: decision %d had %d alternatives, now %d (prefix %v)", i, known[i], alts[i], prefix)
				stopped = true
				return
			}
		}
		for i := len(alts) - 1; i >= len(prefix); i-- {
			if i >= e.Split && !mine {
				continue
			}
			for ch := 1; ch < alts[i]; ch++ {
				next := make([]int, i+1)
				copy(next, prefix)
				next[i] = ch
				rec(next, mine, alts[:i+1])
			}
		}
	}
	rec(nil, true, nil)
	return runs, !stopped, err
}
