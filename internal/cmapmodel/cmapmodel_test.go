package cmapmodel

import (
	"bytes"
	"testing"
)

func rg(lo, hi string) Range { return Range{Low: []byte(lo), High: []byte(hi)} }

// Hand-derived examples for ISO 32000-2 9.7.6.3.
func TestDecode(t *testing.T) {
	// the code space of 83pv-RKSJ-H style: 1-byte and 2-byte ranges
	s := Set{rg("\x00", "\x80"), rg("\x81\x40", "\x9f\xfc"), rg("\xa0", "\xdf"), rg("\xe0\x40", "\xfc\xfc")}
	if !s.Valid() {
		t.Fatal("set should be valid")
	}
	for _, tc := range []struct {
		in       string
		consumed int
		valid    bool
		want     int
	}{
		{"\x41\x42", 1, true, 1},
		{"\x81\x40\x00", 2, true, 2},
		{"\x81\x3f\x00", 2, false, 2}, // partial match with a 2-byte range
		{"\x81", 1, false, 2},         // truncated
		{"\xff\x00", 1, false, 1},     // first byte matches nothing: shortest range
		{"\xa0", 1, true, 1},
	} {
		c, v, w := s.Decode([]byte(tc.in))
		if c != tc.consumed || v != tc.valid || w != tc.want {
			t.Errorf("Decode(%x) = %d,%v,%d want %d,%v,%d", tc.in, c, v, w, tc.consumed, tc.valid, tc.want)
		}
	}

	// only long ranges: first byte matches nothing -> shortest length (3)
	s = Set{rg("\x10\x00\x00", "\x1f\xff\xff"), rg("\x20\x00\x00\x00", "\x2f\xff\xff\xff")}
	for _, tc := range []struct {
		in       string
		consumed int
		want     int
	}{
		{"\x00\x01\x02\x03", 3, 3},
		{"\x00\x01", 2, 3},
		{"\x20\x00\x00\x00", 4, 4},
		{"\x20\x00", 2, 4},
	} {
		c, _, w := s.Decode([]byte(tc.in))
		if c != tc.consumed || w != tc.want {
			t.Errorf("Decode(%x) = %d,_,%d want %d,_,%d", tc.in, c, w, tc.consumed, tc.want)
		}
	}

	// two ranges with the same longest partial match: the shorter wins
	s = Set{rg("\x10\x20\x00\x00", "\x10\x20\xff\xff"), rg("\x10\x30\x00", "\x10\x30\xff"), rg("\x11\x00", "\x11\xff")}
	if c, v, w := s.Decode([]byte("\x10\x40\x00\x00")); c != 3 || v || w != 3 {
		t.Errorf("got %d,%v,%d", c, v, w)
	}
	if c, v, w := s.Decode([]byte("\x10\x20\x00")); c != 3 || v || w != 4 {
		t.Errorf("got %d,%v,%d", c, v, w)
	}
	if c, v, w := s.Decode([]byte("\x12\x20\x00")); c != 2 || v || w != 2 {
		t.Errorf("got %d,%v,%d", c, v, w)
	}
}

func TestValid(t *testing.T) {
	if (Set{rg("\x00", "\x7f"), rg("\x40\x00", "\x41\xff")}).Valid() {
		t.Error("prefix conflict not detected")
	}
	if !(Set{rg("\x00", "\x7f"), rg("\x80\x00", "\x81\xff")}).Valid() {
		t.Error("valid set rejected")
	}
	if !(Set{rg("\x00", "\x7f"), rg("\x40", "\xff")}).Valid() {
		t.Error("overlap of equal length is not a prefix conflict")
	}
	if (Set{rg("\x00\x10", "\x7f\x20"), rg("\x7f\x15\x00", "\x80\x15\xff")}).Valid() {
		t.Error("prefix conflict in second byte not detected")
	}
	if !(Set{rg("\x00\x10", "\x7f\x20"), rg("\x7f\x21\x00", "\x80\x30\xff")}).Valid() {
		t.Error("valid set rejected (disjoint in second byte)")
	}
}

func TestSameCodes(t *testing.T) {
	a := Set{rg("\x00\x00", "\x00\x7f"), rg("\x01\x10", "\x01\x7f")}
	b := Set{rg("\x00\x00", "\x01\x7f")}
	same, w := SameCodes(a, b)
	if same || !bytes.Equal(w, []byte{1, 0}) {
		t.Errorf("got %v %x", same, w)
	}
	c := Set{rg("\x01\x10", "\x01\x7f"), rg("\x00\x00", "\x00\x3f"), rg("\x00\x40", "\x00\x7f")}
	if same, w := SameCodes(a, c); !same {
		t.Errorf("split range: witness %x", w)
	}
}

func TestCodeAt(t *testing.T) {
	r := rg("\x10\xfe", "\x11\xff")
	var got [][]byte
	for i := uint64(0); i < r.NumCodes(); i++ {
		got = append(got, r.CodeAt(i))
	}
	want := [][]byte{{0x10, 0xfe}, {0x10, 0xff}, {0x11, 0xfe}, {0x11, 0xff}}
	for i := range want {
		if !bytes.Equal(got[i], want[i]) {
			t.Errorf("CodeAt(%d) = %x", i, got[i])
		}
	}
}
