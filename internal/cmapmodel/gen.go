package cmapmodel

import (
	"encoding/hex"
	"encoding/json"
	"sort"

	"pgregory.net/rapid"
)

type rangeJSON struct {
	Lo string `json:"lo"`
	Hi string `json:"hi"`
}

// MarshalJSON writes the bounds as hex strings.
func (r Range) MarshalJSON() ([]byte, error) {
	return json.Marshal(rangeJSON{Lo: hex.EncodeToString(r.Low), Hi: hex.EncodeToString(r.High)})
}

// UnmarshalJSON reads the form written by MarshalJSON.
func (r *Range) UnmarshalJSON(b []byte) error {
	var x rangeJSON
	if err := json.Unmarshal(b, &x); err != nil {
		return err
	}
	lo, err := hex.DecodeString(x.Lo)
	if err != nil {
		return err
	}
	hi, err := hex.DecodeString(x.Hi)
	if err != nil {
		return err
	}
	r.Low, r.High = lo, hi
	return nil
}

// String renders the range as <lo>-<hi>.
func (r Range) String() string {
	return "<" + hex.EncodeToString(r.Low) + ">-<" + hex.EncodeToString(r.High) + ">"
}

// String renders the set.
func (s Set) String() string {
	out := "{"
	for i, r := range s {
		if i > 0 {
			out += " "
		}
		out += r.String()
	}
	return out + "}"
}

// Clone returns a deep copy.
func (s Set) Clone() Set {
	out := make(Set, len(s))
	for i, r := range s {
		out[i] = Range{Low: append([]byte(nil), r.Low...), High: append([]byte(nil), r.High...)}
	}
	return out
}

// boundary is the byte alphabet which the generators prefer.
var boundary = []byte{0x00, 0x01, 0x0F, 0x10, 0x7E, 0x7F, 0x80, 0x81, 0xFE, 0xFF}

func drawByte(t *rapid.T, label string) byte {
	if rapid.IntRange(0, 3).Draw(t, label+"-uniform") == 0 {
		return rapid.Byte().Draw(t, label)
	}
	return rapid.SampledFrom(boundary).Draw(t, label)
}

// drawInterval draws a byte interval.  The palette holds the intervals drawn
// before for the same set; re-using them (entirely, or only their upper
// bound) makes sibling sub-trees of the decoder similar to each other.
func drawInterval(t *rapid.T, palette *[][2]byte) [2]byte {
	var iv [2]byte
	k := rapid.IntRange(0, 9).Draw(t, "ivkind")
	n := len(*palette)
	switch {
	case k <= 1:
		iv = [2]byte{0x00, 0xFF}
	case k <= 4 && n > 0:
		iv = (*palette)[rapid.IntRange(0, n-1).Draw(t, "pal")]
	case k == 5 && n > 0:
		p := (*palette)[rapid.IntRange(0, n-1).Draw(t, "pal")]
		if rapid.Bool().Draw(t, "keephi") {
			lo := drawByte(t, "lo")
			if lo > p[1] {
				lo = p[1]
			}
			iv = [2]byte{lo, p[1]}
		} else {
			hi := drawByte(t, "hi")
			if hi < p[0] {
				hi = p[0]
			}
			iv = [2]byte{p[0], hi}
		}
	case k == 6:
		b := drawByte(t, "single")
		iv = [2]byte{b, b}
	default:
		a, b := drawByte(t, "a"), drawByte(t, "b")
		if a > b {
			a, b = b, a
		}
		iv = [2]byte{a, b}
	}
	if n < 4 {
		*palette = append(*palette, iv)
	}
	return iv
}

// GenOpts controls GenSet.
type GenOpts struct {
	MaxRanges int  // 1..
	MaxLen    int  // 1..4
	ValidOnly bool // never return a set with a prefix conflict
}

// GenSet draws a set of well-formed ranges.  Three modes: ranges with
// pairwise disjoint first-byte intervals (valid by construction, any mixture
// of lengths); free ranges where those conflicting with an earlier range are
// dropped (valid; allows equal-length overlap and disjointness in later
// bytes only); free ranges kept as drawn (often invalid).
func GenSet(t *rapid.T, opt GenOpts) Set {
	if opt.MaxRanges < 1 {
		opt.MaxRanges = 6
	}
	if opt.MaxLen < 1 || opt.MaxLen > 4 {
		opt.MaxLen = 4
	}
	mode := rapid.IntRange(0, 9).Draw(t, "mode")
	n := rapid.IntRange(1, opt.MaxRanges).Draw(t, "nranges")
	var palette [][2]byte
	var set Set

	drawRest := func(first [2]byte) Range {
		l := rapid.IntRange(1, opt.MaxLen).Draw(t, "len")
		r := Range{Low: []byte{first[0]}, High: []byte{first[1]}}
		for i := 1; i < l; i++ {
			iv := drawInterval(t, &palette)
			r.Low = append(r.Low, iv[0])
			r.High = append(r.High, iv[1])
		}
		return r
	}

	switch {
	case mode <= 5:
		// disjoint first bytes: 2n cut points
		var cuts []int
		seen := map[int]bool{}
		for i := 0; i < 2*n; i++ {
			b := int(drawByte(t, "cut"))
			if !seen[b] {
				seen[b] = true
				cuts = append(cuts, b)
			}
		}
		sort.Ints(cuts)
		if len(cuts)%2 == 1 {
			// a single-value interval at the end
			cuts = append(cuts, cuts[len(cuts)-1])
		}
		for i := 0; i+1 < len(cuts); i += 2 {
			set = append(set, drawRest([2]byte{byte(cuts[i]), byte(cuts[i+1])}))
		}
		// make neighbours adjacent now and then (merge candidates)
		if len(set) >= 2 && rapid.Bool().Draw(t, "adjacent") {
			for i := 0; i+1 < len(set); i++ {
				if set[i].High[0] < set[i+1].Low[0] {
					set[i].High[0] = set[i+1].Low[0] - 1
				}
			}
		}
		perm := rapid.Permutation(indices(len(set))).Draw(t, "order")
		out := make(Set, len(set))
		for i, j := range perm {
			out[i] = set[j]
		}
		set = out
	default:
		for i := 0; i < n; i++ {
			first := drawInterval(t, &palette)
			r := drawRest(first)
			if mode <= 8 || opt.ValidOnly {
				ok := true
				for _, q := range set {
					if conflict(q, r) {
						ok = false
						break
					}
				}
				if !ok {
					continue
				}
			}
			set = append(set, r)
		}
		if len(set) == 0 {
			set = append(set, Range{Low: []byte{0}, High: []byte{0xFF}})
		}
	}
	return set
}

func indices(n int) []int {
	out := make([]int, n)
	for i := range out {
		out[i] = i
	}
	return out
}
