// Package cmapmodel is a small reference model of PDF code space ranges,
// written from ISO 32000-2:2020 section 9.7.6.3 ("Handling undefined
// characters") and section 9.7.5.  It shares no code with the library under
// test and imports nothing from it.
//
// A code space range of length n is a pair of n-byte strings (low, high); an
// n-byte string lies in the range iff each of its bytes lies between the
// corresponding bytes of low and high.  A set of ranges is valid iff no code
// is a proper prefix of another code.
package cmapmodel

import "sort"

// Range is one code space range.
type Range struct {
	Low  []byte
	High []byte
}

// Set is a set (order is irrelevant) of code space ranges.
type Set []Range

// WellFormed reports whether the range has equal-length bounds of 1..4
// bytes with low <= high in every position.
func (r Range) WellFormed() bool {
	if len(r.Low) != len(r.High) || len(r.Low) < 1 || len(r.Low) > 4 {
		return false
	}
	for i := range r.Low {
		if r.Low[i] > r.High[i] {
			return false
		}
	}
	return true
}

// Len is the code length of the range.
func (r Range) Len() int { return len(r.Low) }

// matchPrefix returns the number of leading bytes of s (at most the length
// of the range) which lie within the per-byte bounds of the range.
func (r Range) matchPrefix(s []byte) int {
	k := 0
	for k < len(r.Low) && k < len(s) && r.Low[k] <= s[k] && s[k] <= r.High[k] {
		k++
	}
	return k
}

// Contains reports whether s (exactly the code, no tail) lies in the range.
func (r Range) Contains(s []byte) bool {
	return len(s) == len(r.Low) && r.matchPrefix(s) == len(s)
}

// conflict reports whether some code of one range is a proper prefix of a
// code of the other: the lengths differ and the byte intervals intersect in
// every position of the shorter range.
func conflict(a, b Range) bool {
	if a.Len() == b.Len() {
		return false
	}
	if a.Len() > b.Len() {
		a, b = b, a
	}
	for i := 0; i < a.Len(); i++ {
		lo, hi := a.Low[i], a.High[i]
		if b.Low[i] > lo {
			lo = b.Low[i]
		}
		if b.High[i] < hi {
			hi = b.High[i]
		}
		if lo > hi {
			return false
		}
	}
	return true
}

// Valid reports whether all ranges are well formed and no code is a proper
// prefix of another code.
func (s Set) Valid() bool {
	for _, r := range s {
		if !r.WellFormed() {
			return false
		}
	}
	for i := range s {
		for j := i + 1; j < len(s); j++ {
			if conflict(s[i], s[j]) {
				return false
			}
		}
	}
	return true
}

// MatchLen returns the length of the code at the start of str, or 0 if str
// does not start with a code of the set.  For a valid set the answer does not
// depend on the order of the ranges.
func (s Set) MatchLen(str []byte) int {
	for _, r := range s {
		if len(str) >= r.Len() && r.matchPrefix(str) == r.Len() {
			return r.Len()
		}
	}
	return 0
}

// Decode is the reference decoder for a valid, non-empty set.  It returns the
// number of bytes of str which make up the first code, whether that code is
// valid, and the number of bytes the specification asks for (want > consumed
// iff the input ends inside the code).
//
//   - If the first bytes of str lie in a range, the code is valid and has the
//     length of that range.
//   - Otherwise (9.7.6.3): if the first byte matches the first byte of no
//     range, the shortest range of the set is chosen; otherwise the ranges
//     with the longest partial match are considered and the shortest of
//     these is chosen.  The length of the chosen range is consumed -- never
//     more than available, and at least one byte.
//
// For empty input it returns (0, false, 0).
func (s Set) Decode(str []byte) (consumed int, valid bool, want int) {
	if len(str) == 0 {
		return 0, false, 0
	}
	if n := s.MatchLen(str); n > 0 {
		return n, true, n
	}
	best := -1 // longest partial match seen
	want = 0
	for _, r := range s {
		k := r.matchPrefix(str)
		switch {
		case k > best:
			best = k
			want = r.Len()
		case k == best && r.Len() < want:
			want = r.Len()
		}
	}
	if want < 1 {
		want = 1
	}
	consumed = want
	if consumed > len(str) {
		consumed = len(str)
	}
	return consumed, false, want
}

// Classes returns, for byte position pos, the partition of 0..255 into
// maximal intervals which no range bound of any of the sets separates.  The
// result is a sorted list of (first, last) pairs.  Within one class, all byte
// values are indistinguishable for every one of the sets.
func Classes(pos int, sets ...Set) [][2]byte {
	brk := map[int]bool{0: true, 256: true}
	for _, s := range sets {
		for _, r := range s {
			if pos < len(r.Low) && pos < len(r.High) {
				brk[int(r.Low[pos])] = true
				brk[int(r.High[pos])+1] = true
			}
		}
	}
	var bb []int
	for b := range brk {
		bb = append(bb, b)
	}
	sort.Ints(bb)
	res := make([][2]byte, 0, len(bb)-1)
	for i := 0; i+1 < len(bb); i++ {
		res = append(res, [2]byte{byte(bb[i]), byte(bb[i+1] - 1)})
	}
	return res
}

// Reps returns representative byte values for position pos: the first and
// the last value of every class and, if withMid is set, one interior value of
// every class of width >= 3.  The result is sorted and free of duplicates.
func Reps(pos int, withMid bool, sets ...Set) []byte {
	var seen [256]bool
	for _, c := range Classes(pos, sets...) {
		seen[c[0]] = true
		seen[c[1]] = true
		if withMid && int(c[1])-int(c[0]) >= 2 {
			seen[byte((int(c[0])+int(c[1]))/2)] = true
		}
	}
	var res []byte
	for b, ok := range seen {
		if ok {
			res = append(res, byte(b))
		}
	}
	return res
}

// IsCode reports whether s is (exactly) a code of the set.
func (s Set) IsCode(str []byte) bool {
	for _, r := range s {
		if r.Contains(str) {
			return true
		}
	}
	return false
}

// SameCodes decides whether two sets describe the same set of codes, by the
// definition: for every length n in 1..4, an n-byte string is a code of a iff
// it is a code of b.  One string per combination of classes is enough, since
// neither set can tell the members of a class apart.  If the sets differ, a
// witness code (in one set but not the other) is returned.
func SameCodes(a, b Set) (bool, []byte) {
	var reps [4][]byte
	for i := range reps {
		for _, c := range Classes(i, a, b) {
			reps[i] = append(reps[i], c[0])
		}
	}
	var buf [4]byte
	var rec func(n int) []byte
	rec = func(n int) []byte {
		if n > 0 && a.IsCode(buf[:n]) != b.IsCode(buf[:n]) {
			return append([]byte(nil), buf[:n]...)
		}
		if n == 4 {
			return nil
		}
		for _, x := range reps[n] {
			buf[n] = x
			if w := rec(n + 1); w != nil {
				return w
			}
		}
		return nil
	}
	if w := rec(0); w != nil {
		return false, w
	}
	return true, nil
}

// NumCodes returns the number of codes in the range.
func (r Range) NumCodes() uint64 {
	n := uint64(1)
	for i := range r.Low {
		n *= uint64(r.High[i]) - uint64(r.Low[i]) + 1
	}
	return n
}

// CodeAt returns the idx-th code of the range in the order in which the last
// byte varies fastest (the order a cidrange / bfrange enumerates its codes).
func (r Range) CodeAt(idx uint64) []byte {
	code := make([]byte, len(r.Low))
	for i := len(r.Low) - 1; i >= 0; i-- {
		span := uint64(r.High[i]) - uint64(r.Low[i]) + 1
		code[i] = r.Low[i] + byte(idx%span)
		idx /= span
	}
	return code
}

// IndexOf is the inverse of CodeAt; ok is false if code is not in the range.
func (r Range) IndexOf(code []byte) (idx uint64, ok bool) {
	if !r.Contains(code) {
		return 0, false
	}
	for i := range r.Low {
		span := uint64(r.High[i]) - uint64(r.Low[i]) + 1
		idx = idx*span + uint64(code[i]-r.Low[i])
	}
	return idx, true
}

// Overlap reports whether two ranges of equal length have a code in common.
func Overlap(a, b Range) bool {
	if a.Len() != b.Len() {
		return false
	}
	for i := range a.Low {
		if a.High[i] < b.Low[i] || b.High[i] < a.Low[i] {
			return false
		}
	}
	return true
}
