// Package serial is an independent PDF serialiser written from ISO 32000.
// Every degree of freedom the file format leaves to a writer (white space,
// comments, end-of-line style, string and name notation, cross-reference
// layout, ...) is decided by a Chooser, so that a property-based test can
// explore the space of conforming renderings of one document history.
//
// The package shares no code with seehuhn.de/go/pdf and imports the standard
// library and the sibling package syntax only.
package serial

import (
	"strconv"

	"seehuhn.de/go/pdf/verif/internal/indep/syntax"
)

// Chooser makes the free rendering choices.  Intn returns a value in [0,n).
// Returning 0 everywhere gives the canonical rendering.
type Chooser interface {
	Intn(n int) int
}

// Canonical is the Chooser which always returns 0.
type Canonical struct{}

// Intn returns 0.
func (Canonical) Intn(int) int { return 0 }

var wsBytes = []byte{' ', '\n', '\r', '\t', '\f', 0}

// out is a byte buffer with token-aware separators.
type out struct {
	buf []byte
	c   Chooser
}

func (o *out) rare(n int) bool { return o.c.Intn(n) == n-1 }

// eol appends an end-of-line marker: LF, CR LF or CR.
func (o *out) eol() {
	switch o.c.Intn(3) {
	case 0:
		o.buf = append(o.buf, '\n')
	case 1:
		o.buf = append(o.buf, '\r', '\n')
	default:
		o.buf = append(o.buf, '\r')
	}
}

// eolNoCR appends LF or CR LF.
func (o *out) eolNoCR() {
	if o.c.Intn(2) == 0 {
		o.buf = append(o.buf, '\n')
	} else {
		o.buf = append(o.buf, '\r', '\n')
	}
}

const commentAlphabet = "abcXYZ 019()<>[]{}/%#\\\tendobj stream R"

// comment appends a comment including its terminating end-of-line marker.
func (o *out) comment() {
	o.buf = append(o.buf, '%')
	n := o.c.Intn(12)
	for i := 0; i < n; i++ {
		o.buf = append(o.buf, commentAlphabet[o.c.Intn(len(commentAlphabet))])
	}
	if o.c.Intn(2) == 0 {
		o.buf = append(o.buf, '\n')
	} else {
		o.buf = append(o.buf, '\r')
	}
}

func (o *out) wsRun() {
	n := 1 + o.c.Intn(3)
	for i := 0; i < n; i++ {
		o.buf = append(o.buf, wsBytes[o.c.Intn(len(wsBytes))])
	}
}

// gap appends the separator between two tokens.  If required is false the
// separator may be empty.
func (o *out) gap(required bool) {
	switch o.c.Intn(8) {
	case 0, 1, 2:
		if n := len(o.buf); required || n == 0 || !syntax.IsWhite(o.buf[n-1]) {
			o.buf = append(o.buf, ' ')
		}
	case 3, 4:
		if required {
			o.buf = append(o.buf, wsBytes[o.c.Intn(len(wsBytes))])
		}
	case 5, 6:
		o.wsRun()
	default:
		if o.c.Intn(2) == 1 {
			o.wsRun()
		}
		o.comment()
		if o.c.Intn(2) == 1 {
			o.wsRun()
		}
	}
}

// tok appends a token, preceded by a separator.  The separator is mandatory
// if the previous byte and the first byte of the token are both regular
// characters.
func (o *out) tok(t []byte) {
	if len(o.buf) > 0 && len(t) > 0 {
		last := o.buf[len(o.buf)-1]
		// (a '/' at the end of the buffer is the empty name)
		o.gap((syntax.IsRegular(last) || last == '/') && syntax.IsRegular(t[0]))
	}
	o.buf = append(o.buf, t...)
}

// raw appends bytes without separator.
func (o *out) raw(b ...byte) { o.buf = append(o.buf, b...) }

func (o *out) str(s string) { o.buf = append(o.buf, s...) }

// RenderValue renders one object with free choices taken from c.
func RenderValue(v syntax.Value, c Chooser) []byte {
	if c == nil {
		c = Canonical{}
	}
	o := &out{c: c}
	o.value(v)
	return o.buf
}

func (o *out) value(v syntax.Value) {
	switch v.Kind {
	case syntax.Null:
		o.tok([]byte("null"))
	case syntax.Bool:
		if v.Bool {
			o.tok([]byte("true"))
		} else {
			o.tok([]byte("false"))
		}
	case syntax.Int:
		o.tok(o.intText(v.Int))
	case syntax.Real:
		o.tok(o.realText(v.Real))
	case syntax.Name:
		o.tok(o.nameText(v.Bytes))
	case syntax.String:
		hex := v.Hex
		if o.rare(4) {
			hex = !hex
		}
		if hex {
			o.tok(o.hexText(v.Bytes))
		} else {
			o.tok(o.literalText(v.Bytes))
		}
	case syntax.Ref:
		o.tok([]byte(strconv.FormatUint(uint64(v.Num), 10)))
		o.tok([]byte(strconv.FormatUint(uint64(v.Gen), 10)))
		o.tok([]byte("R"))
	case syntax.Array:
		o.tok([]byte("["))
		for _, e := range v.Arr {
			o.value(e)
		}
		o.tok([]byte("]"))
	case syntax.Dict:
		o.tok([]byte("<<"))
		for _, e := range v.Dict {
			o.tok(o.nameText(e.Key))
			o.value(e.Val)
		}
		o.tok([]byte(">>"))
	default:
		panic("serial: bad value kind")
	}
}

func (o *out) intText(i int64) []byte {
	s := strconv.FormatInt(i, 10)
	if o.rare(16) {
		// explicit sign and/or leading zeros: "+17", "0017", "-0017"
		sign := ""
		digits := s
		if i < 0 {
			sign = "-"
			digits = s[1:]
		} else if o.c.Intn(2) == 1 {
			sign = "+"
		}
		for k := o.c.Intn(3); k > 0; k-- {
			digits = "0" + digits
		}
		s = sign + digits
	}
	return []byte(s)
}

func (o *out) realText(f float64) []byte {
	s := strconv.FormatFloat(f, 'f', -1, 64)
	neg := false
	if len(s) > 0 && s[0] == '-' {
		neg = true
		s = s[1:]
	}
	hasDot := false
	for i := 0; i < len(s); i++ {
		if s[i] == '.' {
			hasDot = true
		}
	}
	if !hasDot {
		switch o.c.Intn(3) {
		case 0:
			s += ".0"
		case 1:
			s += "."
		default:
			s += ".00"
		}
	} else {
		if len(s) > 2 && s[0] == '0' && s[1] == '.' && o.c.Intn(3) == 2 {
			s = s[1:] // ".5"
		}
		if o.rare(8) {
			s += "0"
		}
	}
	if neg {
		s = "-" + s
	} else if o.rare(16) {
		s = "+" + s
	}
	return []byte(s)
}

const hexLower = "0123456789abcdef"
const hexUpper = "0123456789ABCDEF"

func (o *out) hexDigits(b byte) (byte, byte) {
	tab := hexUpper
	if o.c.Intn(2) == 1 {
		tab = hexLower
	}
	return tab[b>>4], tab[b&15]
}

// nameText renders a name.  Bytes that are not regular characters, '#' and
// NUL must use the #xx notation; every other byte may use it.
func (o *out) nameText(name []byte) []byte {
	res := []byte{'/'}
	for _, b := range name {
		must := !syntax.IsRegular(b) || b == '#'
		should := b < '!' || b > '~'
		var esc bool
		switch {
		case must:
			esc = true
		case should:
			esc = !o.rare(8)
		default:
			esc = o.rare(12)
		}
		if esc {
			h, l := o.hexDigits(b)
			res = append(res, '#', h, l)
		} else {
			res = append(res, b)
		}
	}
	return res
}

func (o *out) hexText(s []byte) []byte {
	res := []byte{'<'}
	for i, b := range s {
		if o.rare(10) {
			res = append(res, wsBytes[o.c.Intn(len(wsBytes))])
		}
		h, l := o.hexDigits(b)
		res = append(res, h)
		if o.rare(16) {
			res = append(res, wsBytes[o.c.Intn(len(wsBytes))])
		}
		if i == len(s)-1 && b&15 == 0 && o.c.Intn(3) == 2 {
			// odd number of digits: the final digit is assumed to be 0
			break
		}
		res = append(res, l)
	}
	if o.rare(10) {
		res = append(res, wsBytes[o.c.Intn(len(wsBytes))])
	}
	return append(res, '>')
}

// literalText renders a literal string.
func (o *out) literalText(s []byte) []byte {
	// find the balanced pairs of parentheses: they may be written unescaped
	partner := make([]int, len(s))
	for i := range partner {
		partner[i] = -1
	}
	var stack []int
	for i, b := range s {
		if b == '(' {
			stack = append(stack, i)
		} else if b == ')' && len(stack) > 0 {
			j := stack[len(stack)-1]
			stack = stack[:len(stack)-1]
			partner[i], partner[j] = j, i
		}
	}
	rawParen := make([]bool, len(s))
	for i, b := range s {
		if b == '(' && partner[i] >= 0 && o.c.Intn(2) == 0 {
			rawParen[i] = true
			rawParen[partner[i]] = true
		}
	}

	res := []byte{'('}
	afterCR := false // the previous output byte is a raw CR: a raw LF would merge with it
	octal := func(b byte, next int) {
		digits := strconv.FormatUint(uint64(b), 8)
		short := next >= len(s) || s[next] < '0' || s[next] > '9'
		if !short || o.c.Intn(2) == 0 {
			for len(digits) < 3 {
				digits = "0" + digits
			}
		} else if len(digits) < 2 && o.c.Intn(2) == 1 {
			digits = "0" + digits
		}
		res = append(res, '\\')
		res = append(res, digits...)
	}
	for i, b := range s {
		if o.rare(24) {
			// line continuation
			res = append(res, '\\')
			switch o.c.Intn(3) {
			case 0:
				res = append(res, '\n')
				afterCR = false
			case 1:
				res = append(res, '\r', '\n')
				afterCR = false
			default:
				res = append(res, '\r')
				afterCR = true
			}
		}
		wasCR := afterCR
		afterCR = false
		switch {
		case b == '(' || b == ')':
			if rawParen[i] {
				res = append(res, b)
			} else if o.rare(6) {
				octal(b, i+1)
			} else {
				res = append(res, '\\', b)
			}
		case b == '\\':
			if o.rare(6) {
				octal(b, i+1)
			} else {
				res = append(res, '\\', '\\')
			}
		case b == '\r':
			if o.c.Intn(2) == 0 {
				res = append(res, '\\', 'r')
			} else {
				octal(b, i+1)
			}
		case b == '\n':
			switch k := o.c.Intn(6); {
			case k == 0 || k == 1:
				res = append(res, '\\', 'n')
			case k == 2 && !wasCR:
				res = append(res, '\n')
			case k == 3 && !wasCR:
				// an end-of-line marker inside a string reads as LF
				res = append(res, '\r', '\n')
			case k == 4 && !wasCR:
				res = append(res, '\r')
				afterCR = true
			default:
				octal(b, i+1)
			}
		case b == '\t' || b == '\b' || b == '\f':
			switch o.c.Intn(3) {
			case 0:
				res = append(res, '\\', map[byte]byte{'\t': 't', '\b': 'b', '\f': 'f'}[b])
			case 1:
				res = append(res, b)
			default:
				octal(b, i+1)
			}
		default:
			switch {
			case o.rare(10):
				octal(b, i+1)
			case o.rare(40) && isPlainEscapable(b):
				// a backslash before any other character is ignored
				res = append(res, '\\', b)
			default:
				res = append(res, b)
			}
		}
	}
	return append(res, ')')
}

// isPlainEscapable reports whether "\b" reads as b (the backslash is ignored).
func isPlainEscapable(b byte) bool {
	switch b {
	case 'n', 'r', 't', 'b', 'f', '(', ')', '\\', '\r', '\n':
		return false
	}
	return b < '0' || b > '9'
}
