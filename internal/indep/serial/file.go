package serial

import (
	"bytes"
	"compress/zlib"
	"fmt"
	"sort"
	"strconv"
	"sync"

	"seehuhn.de/go/pdf/verif/internal/indep/syntax"
)

// SectionKind selects the form of the cross-reference section of a revision.
type SectionKind int

// The section kinds.
const (
	Table  SectionKind = iota // classic table and trailer
	Stream                    // cross-reference stream
	Hybrid                    // classic table whose trailer names an /XRefStm
)

func (k SectionKind) String() string {
	switch k {
	case Table:
		return "table"
	case Stream:
		return "stream"
	case Hybrid:
		return "hybrid"
	}
	return "kind?"
}

// How the /Length entry of a stream is written.
const (
	LenDirect   = iota // direct integer, correct
	LenIndirect        // reference to integer object LenObj (defined by Write, generation 0)
	LenOmit            // no /Length entry
	LenOverride        // LenOverride written verbatim
)

// StreamSpec describes the data part of a stream object.
type StreamSpec struct {
	Data        []byte       `json:"data"`
	LenMode     int          `json:"len_mode,omitempty"`
	LenObj      uint32       `json:"len_obj,omitempty"`
	LenOverride syntax.Value `json:"len_override,omitempty"`
}

// Op is what one revision does to one object number.
type Op struct {
	Free    bool   `json:"free,omitempty"`
	NextGen uint16 `json:"next_gen,omitempty"` // Free: generation field of the free entry

	Gen      uint16       `json:"gen,omitempty"`      // Define: generation of the object
	Value    syntax.Value `json:"value"`              // the object, or the stream dictionary without /Length
	Stream   *StreamSpec  `json:"stream,omitempty"`   // non-nil: a stream object
	Compress bool         `json:"compress,omitempty"` // member of an object stream (Stream sections and the XRefStm part of Hybrid sections; needs Gen == 0 and no Stream, ignored otherwise)
	Hidden   bool         `json:"hidden,omitempty"`   // Hybrid: listed in the XRefStm, absent from the table
}

// Revision is one body + cross-reference section + trailer.
type Revision struct {
	Kind          SectionKind    `json:"kind"`
	Ops           map[uint32]Op  `json:"ops"`
	Trailer       []syntax.Entry `json:"trailer,omitempty"`
	XRefStreamNum uint32         `json:"xref_stream_num,omitempty"`
	ObjStmNums    []uint32       `json:"objstm_nums,omitempty"`
	// ObjStmCount, if positive, is the number of object streams over which
	// the compressed objects of the revision are distributed (in equal
	// shares, ascending numbers); 0 lets the Chooser decide (one or two).
	ObjStmCount int `json:"objstm_count,omitempty"`
	// Object0 says whether an update section (not the first revision, which
	// always has it) contains an entry for object 0: 0 = the Chooser decides
	// (only if the revision frees something), 1 = always, 2 = never, 3 =
	// always and (in a classic table) in a subsection "0 1" of its own, so
	// that a following entry for object 1 starts a new subsection.
	Object0 int `json:"object0,omitempty"`
}

// Options configures Write.
type Options struct {
	Version string  // default "1.7"
	Choose  Chooser // nil = Canonical{}
	MaxJunk int     // > 0: up to that many bytes before %PDF-

	// LooseEndstream lets the chooser omit the end-of-line marker between
	// the stream data and the keyword endstream when /Length is correct
	// (direct or indirect).  ISO 32000-1 7.3.8.1 only says there "should" be
	// one, so such files conform; internal/indep/strict (which judges the
	// library's own output by the stricter C03 statement) does not accept
	// them, hence the option.
	LooseEndstream bool

	// Transform is applied to every top-level object (for streams: to the
	// dictionary) just before rendering; C10 encrypts strings here.  It is
	// not applied to cross-reference streams, nor to members of object
	// streams.
	Transform func(num uint32, gen uint16, v syntax.Value) syntax.Value
	// TransformStream is applied to the data of every stream (object streams
	// included, cross-reference streams excluded) before /Length is computed.
	TransformStream func(num uint32, gen uint16, dict syntax.Value, raw []byte) []byte

	// NoXRefSelfEntry removes the choice of giving a cross-reference stream a
	// free entry for itself (as go-pdf's writer does) instead of an in-use
	// entry: with this option the in-use entry is always written.
	NoXRefSelfEntry bool

	// KeepOrder writes the objects of every revision in ascending order of
	// their numbers (object-stream containers last) instead of letting the
	// Chooser permute them, so that a caller can place a large object before
	// others.
	KeepOrder bool
	// MinOffsetWidth is a lower bound for the width of field 2 in the /W
	// array of cross-reference streams (0 = none; the width is never less
	// than the largest offset needs).
	MinOffsetWidth int
}

// Placed describes one object written to the file.
type Placed struct {
	Rev       int
	Num       uint32
	Gen       uint16
	Offset    int    // of the first digit of "N G obj", relative to the header; -1 for compressed objects
	InObjStm  uint32 // container number, 0 if not compressed
	Index     int    // index in the container
	Auto      string // "" | "xref" | "objstm" | "length"
	Listed    bool   // has a cross-reference entry in its revision
	IsStream  bool
	DataStart int // streams: offset of the first data byte, relative to the header
	DataLen   int // streams: number of data bytes written (before the end-of-line marker)
	IntValue  int64
}

// TableSub describes one subsection of a classic cross-reference table.
type TableSub struct {
	Rev   int
	Start uint32
	Count int
	First string // the 18 significant bytes of the first entry, e.g. "0000000000 65535 f"
	// Entries holds the 18 significant bytes of every entry of the subsection.
	Entries []string
}

// Result is the rendered file with the positions of its parts.
type Result struct {
	Data         []byte
	HeaderOffset int
	Placed       []Placed
	XRefOffsets  []int // per revision: the offset written after startxref (relative to the header)
	Size         []int // per revision: /Size
	TableSubs    []TableSub
	XRefW        [][3]int // per revision: /W of its cross-reference stream ({0,0,0} for Table)
	XRefWide     bool     // some cross-reference stream uses wider fields than necessary
	// ObjStmTight counts the object streams whose first member starts on the
	// byte after the last integer of the index (/First = length of the index);
	// ObjStmAdjacent counts the members which follow their predecessor
	// without white space.
	ObjStmTight    int
	ObjStmAdjacent int
	// ObjStms describes every object stream written.
	ObjStms []ObjStmInfo
}

// ObjStmInfo describes one object stream.
type ObjStmInfo struct {
	Rev      int
	Num      uint32
	Members  int
	First    int // /First: the length of the index including the white space after it
	IndexLen int // the length of the index proper (up to its last digit)
	DataLen  int // length of the decoded data
}

type xent struct {
	typ    int
	f2, f3 int64
}

type bodyItem struct {
	num     uint32
	gen     uint16
	auto    string
	value   syntax.Value
	stream  *StreamSpec
	raw     []byte   // stream data after TransformStream
	members []uint32 // objstm
}

type fileWriter struct {
	*out
	opt  Options
	hdr  int
	res  *Result
	next uint32
}

func (w *fileWriter) off() int { return len(w.buf) - w.hdr }

func (w *fileWriter) alloc() uint32 {
	n := w.next
	w.next++
	return n
}

// Write renders the history.
func Write(revs []Revision, opt Options) (*Result, error) {
	c := opt.Choose
	if c == nil {
		c = Canonical{}
	}
	w := &fileWriter{out: &out{c: c}, opt: opt, res: &Result{}}

	var maxNum uint32
	note := func(n uint32) {
		if n > maxNum {
			maxNum = n
		}
	}
	for _, rev := range revs {
		for n, op := range rev.Ops {
			if n == 0 {
				return nil, fmt.Errorf("serial: object number 0 cannot be defined or freed explicitly")
			}
			note(n)
			if !op.Free && op.Stream != nil && op.Stream.LenMode == LenIndirect {
				if op.Stream.LenObj == 0 {
					return nil, fmt.Errorf("serial: object %d: LenIndirect needs LenObj", n)
				}
				note(op.Stream.LenObj)
			}
		}
		note(rev.XRefStreamNum)
		for _, n := range rev.ObjStmNums {
			note(n)
		}
	}
	w.next = maxNum + 1

	if opt.MaxJunk > 0 {
		n := c.Intn(opt.MaxJunk + 1)
		for i := 0; i < n; i++ {
			b := byte(c.Intn(256))
			if b == '%' {
				b = '$'
			}
			w.raw(b)
		}
	}
	w.hdr = len(w.buf)
	w.res.HeaderOffset = w.hdr
	version := opt.Version
	if version == "" {
		version = "1.7"
	}
	w.str("%PDF-" + version)
	w.eol()
	if c.Intn(4) != 3 {
		w.raw('%', 0xE2, 0xE3, 0xCF, 0xD3)
		w.eol()
	}

	size := uint32(1)
	prev := -1
	for ri := range revs {
		var err error
		prev, err = w.revision(ri, &revs[ri], &size, prev, ri == len(revs)-1)
		if err != nil {
			return nil, fmt.Errorf("serial: revision %d: %w", ri, err)
		}
	}
	w.res.Data = w.buf
	return w.res, nil
}

func sortedNums[T any](m map[uint32]T) []uint32 {
	nums := make([]uint32, 0, len(m))
	for n := range m {
		nums = append(nums, n)
	}
	sort.Slice(nums, func(i, j int) bool { return nums[i] < nums[j] })
	return nums
}

func (w *fileWriter) revision(ri int, rev *Revision, size *uint32, prev int, last bool) (int, error) {
	c := w.c
	nums := sortedNums(rev.Ops)
	oldSize := *size

	tableEnts := map[uint32]xent{}
	stmEnts := map[uint32]xent{}
	hidden := func(n uint32) bool {
		if rev.Kind == Stream {
			return true
		}
		if rev.Kind == Table {
			return false
		}
		op, ok := rev.Ops[n]
		return !ok || op.Hidden || (op.Compress && !op.Free) // autos of a hybrid revision are hidden, too
	}
	setEnt := func(n uint32, e xent, isHidden bool) {
		if isHidden {
			stmEnts[n] = e
		} else {
			tableEnts[n] = e
		}
		if n+1 > *size {
			*size = n + 1
		}
	}

	// ---- plan the body
	var items []bodyItem
	var compressed []uint32
	for _, n := range nums {
		op := rev.Ops[n]
		if op.Free {
			setEnt(n, xent{0, 0, int64(op.NextGen)}, rev.Kind == Stream)
			continue
		}
		if op.Compress && rev.Kind != Table && op.Gen == 0 && op.Stream == nil {
			compressed = append(compressed, n)
			continue
		}
		it := bodyItem{num: n, gen: op.Gen, value: op.Value, stream: op.Stream}
		if w.opt.Transform != nil {
			it.value = w.opt.Transform(n, op.Gen, it.value)
		}
		if op.Stream != nil {
			it.raw = op.Stream.Data
			if w.opt.TransformStream != nil {
				it.raw = w.opt.TransformStream(n, op.Gen, it.value, append([]byte{}, it.raw...))
			}
			if op.Stream.LenMode == LenIndirect {
				li := bodyItem{num: op.Stream.LenObj, auto: "length", value: syntax.I(int64(len(it.raw)))}
				if _, clash := rev.Ops[li.num]; clash {
					return 0, fmt.Errorf("length object %d is also given in Ops", li.num)
				}
				if c.Intn(2) == 0 {
					items = append(items, it, li)
				} else {
					items = append(items, li, it)
				}
				continue
			}
		}
		items = append(items, it)
	}
	order := 0
	if !w.opt.KeepOrder {
		order = c.Intn(3)
	}
	switch order {
	case 1:
		for i, j := 0, len(items)-1; i < j; i, j = i+1, j-1 {
			items[i], items[j] = items[j], items[i]
		}
	case 2:
		for i := len(items) - 1; i > 0; i-- {
			j := c.Intn(i + 1)
			items[i], items[j] = items[j], items[i]
		}
	}
	if len(compressed) > 0 {
		groups := [][]uint32{compressed}
		if n := rev.ObjStmCount; n > 0 {
			// exactly n containers (as far as there are members), equal shares
			if n > len(compressed) {
				n = len(compressed)
			}
			groups = nil
			for gi := 0; gi < n; gi++ {
				groups = append(groups, compressed[gi*len(compressed)/n:(gi+1)*len(compressed)/n])
			}
		} else if len(compressed) > 1 && c.Intn(3) == 2 {
			k := 1 + c.Intn(len(compressed)-1)
			groups = [][]uint32{compressed[:k], compressed[k:]}
		}
		for gi, g := range groups {
			var num uint32
			if gi < len(rev.ObjStmNums) {
				num = rev.ObjStmNums[gi]
				if _, clash := rev.Ops[num]; clash {
					return 0, fmt.Errorf("object stream number %d is also given in Ops", num)
				}
			} else {
				num = w.alloc()
			}
			it := bodyItem{num: num, auto: "objstm", members: g}
			if w.opt.KeepOrder || c.Intn(2) == 0 {
				items = append(items, it)
			} else {
				items = append([]bodyItem{it}, items...)
			}
		}
	}

	// ---- write the body
	for i := range items {
		it := &items[i]
		switch it.auto {
		case "objstm":
			if err := w.objStm(ri, rev, it, setEnt, hidden(it.num)); err != nil {
				return 0, err
			}
		default:
			start, p := w.object(ri, it)
			p.Listed = true
			w.res.Placed = append(w.res.Placed, p)
			isHidden := hidden(it.num)
			if it.auto == "length" && rev.Kind == Hybrid {
				isHidden = false
			}
			setEnt(it.num, xent{1, int64(start), int64(it.gen)}, isHidden)
		}
	}

	// ---- object 0 and the fill entries of an original section
	if ri == 0 {
		e0 := xent{0, 0, 65535}
		if rev.Kind == Stream {
			stmEnts[0] = e0
		} else {
			tableEnts[0] = e0
		}
	} else {
		anyFree := false
		for _, n := range nums {
			if rev.Ops[n].Free {
				anyFree = true
			}
		}
		include := false
		switch rev.Object0 {
		case 1, 3:
			include = true
		case 2:
		default:
			include = anyFree && c.Intn(2) == 0
		}
		if include {
			e0 := xent{0, 0, 65535}
			if rev.Kind == Stream {
				stmEnts[0] = e0
			} else {
				tableEnts[0] = e0
			}
		}
	}

	var xrefStmNum uint32
	if rev.Kind != Table {
		xrefStmNum = rev.XRefStreamNum
		if xrefStmNum == 0 {
			xrefStmNum = w.alloc()
		} else if _, clash := rev.Ops[xrefStmNum]; clash {
			return 0, fmt.Errorf("xref stream number %d is also given in Ops", xrefStmNum)
		}
		if xrefStmNum+1 > *size {
			*size = xrefStmNum + 1
		}
	}

	fillGen := int64(0)
	if c.Intn(2) == 1 {
		fillGen = 65535
	}
	if ri == 0 {
		// An original file: one subsection starting at 0 (7.5.4); numbers
		// that were never used get free entries.
		switch rev.Kind {
		case Table:
			for n := uint32(0); n < *size; n++ {
				if _, ok := tableEnts[n]; !ok {
					tableEnts[n] = xent{0, 0, fillGen}
				}
			}
		case Hybrid:
			top := uint32(0)
			for n := range tableEnts {
				if n > top {
					top = n
				}
			}
			for n := range stmEnts {
				if n < top {
					return 0, fmt.Errorf("hybrid original section: hidden object %d lies below table object %d", n, top)
				}
			}
			if xrefStmNum < top {
				return 0, fmt.Errorf("hybrid original section: xref stream number %d lies below table object %d", xrefStmNum, top)
			}
			for n := uint32(0); n < top; n++ {
				if _, ok := tableEnts[n]; !ok {
					tableEnts[n] = xent{0, 0, fillGen}
				}
			}
		}
	}

	if ri > 0 {
		// An update which raises /Size gives the numbers it skips a free
		// entry, so that every number below /Size has an entry.
		for n := oldSize; n < *size; n++ {
			_, inTable := tableEnts[n]
			_, inStm := stmEnts[n]
			if inTable || inStm || (rev.Kind != Table && n == xrefStmNum) {
				continue
			}
			if rev.Kind == Stream {
				stmEnts[n] = xent{0, 0, fillGen}
			} else {
				tableEnts[n] = xent{0, 0, fillGen}
			}
		}
	}

	// ---- free list links
	if c.Intn(2) == 0 {
		var free []uint32
		for _, m := range []map[uint32]xent{tableEnts, stmEnts} {
			for n, e := range m {
				if e.typ == 0 {
					free = append(free, n)
				}
			}
		}
		sort.Slice(free, func(i, j int) bool { return free[i] < free[j] })
		for i, n := range free {
			nxt := int64(0)
			if i+1 < len(free) {
				nxt = int64(free[i+1])
			}
			if e, ok := tableEnts[n]; ok {
				e.f2 = nxt
				tableEnts[n] = e
			} else {
				e := stmEnts[n]
				e.f2 = nxt
				stmEnts[n] = e
			}
		}
	}

	// ---- cross-reference section
	var startxref int
	switch rev.Kind {
	case Table:
		startxref = w.table(ri, rev, tableEnts, *size, prev, -1)
		w.res.XRefW = append(w.res.XRefW, [3]int{})
	case Stream:
		startxref = w.xrefStream(ri, rev, xrefStmNum, stmEnts, size, prev, true)
	case Hybrid:
		stmPos := w.xrefStream(ri, rev, xrefStmNum, stmEnts, size, -1, false)
		startxref = w.table(ri, rev, tableEnts, *size, prev, stmPos)
	}
	w.str("startxref")
	w.eol()
	w.str(strconv.Itoa(startxref))
	w.eol()
	w.str("%%EOF")
	if !last || c.Intn(4) != 3 {
		w.eol()
	}
	w.res.XRefOffsets = append(w.res.XRefOffsets, startxref)
	w.res.Size = append(w.res.Size, int(*size))
	return startxref, nil
}

// permute returns the dictionary with its entries in an order chosen by c.
func (w *fileWriter) permute(d syntax.Value) syntax.Value {
	if w.c.Intn(4) != 3 || len(d.Dict) < 2 {
		return d
	}
	out := syntax.Value{Kind: syntax.Dict, Dict: append([]syntax.Entry{}, d.Dict...)}
	for i := len(out.Dict) - 1; i > 0; i-- {
		j := w.c.Intn(i + 1)
		out.Dict[i], out.Dict[j] = out.Dict[j], out.Dict[i]
	}
	return out
}

// separate writes what stands between two top-level constructs.
func (w *fileWriter) separate() {
	if n := len(w.buf); n > 0 && w.buf[n-1] != '\n' && w.buf[n-1] != '\r' {
		w.eol()
	}
	switch w.c.Intn(8) {
	case 5:
		w.wsRun()
	case 6:
		w.comment()
	case 7:
		w.comment()
		w.wsRun()
	}
}

// object writes one indirect object and returns its offset.
func (w *fileWriter) object(ri int, it *bodyItem) (int, Placed) {
	w.separate()
	start := w.off()
	p := Placed{Rev: ri, Num: it.num, Gen: it.gen, Offset: start, Auto: it.auto}
	w.str(strconv.FormatUint(uint64(it.num), 10))
	w.gap(true)
	w.str(strconv.FormatUint(uint64(it.gen), 10))
	w.gap(true)
	w.str("obj")
	if it.stream == nil {
		if it.value.Kind == syntax.Int {
			p.IntValue = it.value.Int
		}
		w.value(it.value)
		w.tok([]byte("endobj"))
		return start, p
	}
	dict := it.value
	if dict.Kind != syntax.Dict {
		dict = syntax.D()
	}
	switch it.stream.LenMode {
	case LenDirect:
		dict = dict.With("Length", syntax.I(int64(len(it.raw))))
	case LenIndirect:
		dict = dict.With("Length", syntax.RefTo(it.stream.LenObj, 0))
	case LenOmit:
		dict = dict.Without("Length")
	case LenOverride:
		dict = dict.With("Length", it.stream.LenOverride)
	}
	w.value(w.permute(dict))
	w.tok([]byte("stream"))
	w.eolNoCR()
	p.IsStream = true
	p.DataStart = w.off()
	p.DataLen = len(it.raw)
	w.raw(it.raw...)
	lenOK := it.stream.LenMode == LenDirect || it.stream.LenMode == LenIndirect
	if !(w.opt.LooseEndstream && lenOK && w.c.Intn(6) == 5) {
		w.eol()
	}
	w.str("endstream")
	w.tok([]byte("endobj"))
	return start, p
}

// encodeStream optionally compresses data; it returns the encoded bytes and
// the dictionary entries that describe the encoding.  cols is the row length
// for the PNG predictor; the data is padded with pad bytes to a multiple of
// cols if padOK, otherwise the predictor is only used if the length fits.
func (w *fileWriter) encodeStream(data []byte, cols int, padOK bool) ([]byte, []syntax.Entry) {
	c := w.c
	mode := c.Intn(3)
	if mode == 0 {
		return data, nil
	}
	var extra []syntax.Entry
	if mode == 2 && cols > 0 {
		if padOK {
			for len(data)%cols != 0 {
				data = append(data, ' ')
			}
		}
		if len(data)%cols == 0 {
			data = pngEncode(data, cols, c)
			parms := syntax.D("Predictor", syntax.I(int64(10+c.Intn(6))), "Columns", syntax.I(int64(cols)))
			if c.Intn(3) == 2 {
				parms = parms.With("Colors", syntax.I(1)).With("BitsPerComponent", syntax.I(8))
			}
			extra = append(extra, syntax.Entry{Key: []byte("DecodeParms"), Val: parms})
		}
	}
	zb := deflate(data, c.Intn(3))
	filter := syntax.N("FlateDecode")
	if c.Intn(4) == 3 {
		filter = syntax.A(filter)
		if len(extra) > 0 {
			extra[0].Val = syntax.A(extra[0].Val)
		}
	}
	extra = append([]syntax.Entry{{Key: []byte("Filter"), Val: filter}}, extra...)
	return zb, extra
}

var (
	zLevels = []int{zlib.DefaultCompression, zlib.BestSpeed, zlib.NoCompression}
	zPools  [3]sync.Pool // zlib writers are expensive to allocate
)

func deflate(data []byte, level int) []byte {
	var zb bytes.Buffer
	zw, _ := zPools[level].Get().(*zlib.Writer)
	if zw == nil {
		zw, _ = zlib.NewWriterLevel(&zb, zLevels[level])
	} else {
		zw.Reset(&zb)
	}
	zw.Write(data)
	zw.Close()
	zPools[level].Put(zw)
	return zb.Bytes()
}

// pngEncode applies the PNG predictor (one sample per byte) with a filter
// type chosen per row.
func pngEncode(data []byte, cols int, c Chooser) []byte {
	out := make([]byte, 0, len(data)+len(data)/cols+1)
	prev := make([]byte, cols)
	for pos := 0; pos < len(data); pos += cols {
		row := data[pos : pos+cols]
		ft := c.Intn(5)
		out = append(out, byte(ft))
		for i, x := range row {
			var a, b, cc byte
			if i > 0 {
				a = row[i-1]
				cc = prev[i-1]
			}
			b = prev[i]
			switch ft {
			case 0:
				out = append(out, x)
			case 1:
				out = append(out, x-a)
			case 2:
				out = append(out, x-b)
			case 3:
				out = append(out, x-byte((int(a)+int(b))/2))
			case 4:
				out = append(out, x-paeth(a, b, cc))
			}
		}
		copy(prev, row)
	}
	return out
}

func paeth(a, b, c byte) byte {
	p := int(a) + int(b) - int(c)
	pa, pb, pc := abs(p-int(a)), abs(p-int(b)), abs(p-int(c))
	if pa <= pb && pa <= pc {
		return a
	}
	if pb <= pc {
		return b
	}
	return c
}

func abs(x int) int {
	if x < 0 {
		return -x
	}
	return x
}

// objStm writes one object stream.
func (w *fileWriter) objStm(ri int, rev *Revision, it *bodyItem, setEnt func(uint32, xent, bool), isHidden bool) error {
	c := w.c
	var body []byte
	offsets := make([]int, len(it.members))
	for i, n := range it.members {
		text := RenderValue(rev.Ops[n].Value, c)
		if i > 0 {
			// white space is only needed where two regular characters (or
			// the empty name "/" and a regular character) would meet
			sep := &out{c: c}
			sep.gap(needSep(body, text))
			if len(sep.buf) == 0 {
				w.res.ObjStmAdjacent++
			}
			body = append(body, sep.buf...)
		}
		offsets[i] = len(body)
		body = append(body, text...)
	}
	hd := &out{c: c}
	for i, n := range it.members {
		hd.tok([]byte(strconv.FormatUint(uint64(n), 10)))
		hd.tok([]byte(strconv.Itoa(offsets[i])))
	}
	indexLen := len(hd.buf)
	hd.gap(needSep(hd.buf, body))
	first := len(hd.buf)
	if first == indexLen && len(it.members) > 0 {
		w.res.ObjStmTight++
	}
	data := append(hd.buf, body...)
	w.res.ObjStms = append(w.res.ObjStms, ObjStmInfo{Rev: ri, Num: it.num, Members: len(it.members), First: first, IndexLen: indexLen, DataLen: len(data)})
	dict := syntax.D("Type", syntax.N("ObjStm"), "N", syntax.I(int64(len(it.members))), "First", syntax.I(int64(first)))
	enc, extra := w.encodeStream(data, 1+c.Intn(4), true)
	dict.Dict = append(dict.Dict, extra...)
	if w.opt.TransformStream != nil {
		enc = w.opt.TransformStream(it.num, 0, dict, append([]byte{}, enc...))
	}
	it.value = dict
	it.stream = &StreamSpec{LenMode: LenDirect}
	it.raw = enc
	start, p := w.object(ri, it)
	p.Listed = true
	w.res.Placed = append(w.res.Placed, p)
	setEnt(it.num, xent{1, int64(start), 0}, isHidden)
	for i, n := range it.members {
		w.res.Placed = append(w.res.Placed, Placed{Rev: ri, Num: n, Offset: -1, InObjStm: it.num, Index: i, Listed: true})
		setEnt(n, xent{2, int64(it.num), int64(i)}, rev.Kind != Table)
	}
	return nil
}

// needSep reports whether white space is required between the bytes written
// so far and the next token.
func needSep(before, next []byte) bool {
	if len(before) == 0 || len(next) == 0 {
		return false
	}
	last := before[len(before)-1]
	return (syntax.IsRegular(last) || last == '/') && syntax.IsRegular(next[0])
}

// runs splits the sorted numbers into maximal contiguous runs, which are then
// split further at points chosen by c if split is set.
func (w *fileWriter) runs(nums []uint32, split bool) [][]uint32 {
	var out [][]uint32
	for i := 0; i < len(nums); {
		j := i + 1
		for j < len(nums) && nums[j] == nums[j-1]+1 {
			if split && w.rare(6) {
				break
			}
			j++
		}
		out = append(out, nums[i:j])
		i = j
	}
	return out
}

// table writes a classic cross-reference table with its trailer and returns
// the offset of the keyword xref.
func (w *fileWriter) table(ri int, rev *Revision, ents map[uint32]xent, size uint32, prev, xrefStm int) int {
	c := w.c
	w.separate()
	pos := w.off()
	w.str("xref")
	w.eol()
	runs := w.runs(sortedNums(ents), ri > 0)
	if ri > 0 && rev.Object0 == 3 && len(runs) > 0 && runs[0][0] == 0 && len(runs[0]) > 1 {
		runs = append([][]uint32{runs[0][:1], runs[0][1:]}, runs[1:]...)
	}
	for _, run := range runs {
		w.str(fmt.Sprintf("%d %d", run[0], len(run)))
		w.eol()
		for i, n := range run {
			e := ents[n]
			kind := byte('n')
			if e.typ == 0 {
				kind = 'f'
			}
			line := fmt.Sprintf("%010d %05d %c", e.f2, e.f3, kind)
			if i == 0 {
				w.res.TableSubs = append(w.res.TableSubs, TableSub{Rev: ri, Start: run[0], Count: len(run), First: line})
			}
			ts := &w.res.TableSubs[len(w.res.TableSubs)-1]
			ts.Entries = append(ts.Entries, line)
			w.str(line)
			switch c.Intn(3) {
			case 0:
				w.raw(' ', '\n')
			case 1:
				w.raw('\r', '\n')
			default:
				w.raw(' ', '\r')
			}
		}
	}
	w.str("trailer")
	w.eol()
	dict := syntax.D("Size", syntax.I(int64(size)))
	if prev >= 0 {
		dict = dict.With("Prev", syntax.I(int64(prev)))
	}
	if xrefStm >= 0 {
		dict = dict.With("XRefStm", syntax.I(int64(xrefStm)))
	}
	dict.Dict = append(dict.Dict, rev.Trailer...)
	w.value(w.permute(dict))
	w.eol()
	return pos
}

func bytesFor(x int64) int {
	n := 0
	for x > 0 {
		n++
		x >>= 8
	}
	return n
}

// xrefStream writes a cross-reference stream object and returns its offset.
// If main is false the stream is the /XRefStm of a hybrid section.
func (w *fileWriter) xrefStream(ri int, rev *Revision, num uint32, ents map[uint32]xent, size *uint32, prev int, main bool) int {
	c := w.c
	w.separate()
	pos := w.off()
	// The stream lists itself, either as the in-use object it is or (as some
	// writers do, since the offset is only known late) with a free entry.
	self := w.opt.NoXRefSelfEntry || c.Intn(4) != 3
	if self {
		ents[num] = xent{1, int64(pos), 0}
	} else {
		ents[num] = xent{0, 0, 0}
	}
	if ri == 0 && main {
		fill := int64(0)
		if c.Intn(2) == 1 {
			fill = 65535
		}
		for n := uint32(0); n < *size; n++ {
			if _, ok := ents[n]; !ok {
				ents[n] = xent{0, 0, fill}
			}
		}
	}
	nums := sortedNums(ents)

	allInUse, allGen0 := true, true
	var max2, max3 int64
	for _, n := range nums {
		e := ents[n]
		if e.typ != 1 {
			allInUse = false
		}
		if e.f3 != 0 {
			allGen0 = false
		}
		if e.f2 > max2 {
			max2 = e.f2
		}
		if e.f3 > max3 {
			max3 = e.f3
		}
	}
	widen := func(min int) int {
		if c.Intn(4) == 3 {
			return min + c.Intn(8-min+1)
		}
		return min
	}
	w0 := 1
	if allInUse && c.Intn(3) == 2 {
		w0 = 0 // the type field is absent: every entry has the default type 1
	} else {
		w0 = widen(1)
	}
	w1 := bytesFor(max2)
	if w1 == 0 {
		w1 = 1
	}
	w1 = widen(w1)
	if w1 < w.opt.MinOffsetWidth && w.opt.MinOffsetWidth <= 8 {
		w1 = w.opt.MinOffsetWidth
	}
	w2 := bytesFor(max3)
	if w2 == 0 && !(allInUse && allGen0 && c.Intn(2) == 0) {
		w2 = 1
	}
	if w2 > 0 {
		w2 = widen(w2)
	}
	w.res.XRefW = append(w.res.XRefW, [3]int{w0, w1, w2})
	w.res.XRefWide = w.res.XRefWide || w0 > 1 || w1 > max(1, bytesFor(max2)) || w2 > max(1, bytesFor(max3))

	var runs [][]uint32
	if ri == 0 && main {
		runs = [][]uint32{nums}
	} else {
		runs = w.runs(nums, true)
	}
	var data []byte
	put := func(x int64, width int) {
		for i := width - 1; i >= 0; i-- {
			data = append(data, byte(uint64(x)>>(8*uint(i))))
		}
	}
	index := syntax.A()
	for _, run := range runs {
		index.Arr = append(index.Arr, syntax.I(int64(run[0])), syntax.I(int64(len(run))))
		for _, n := range run {
			e := ents[n]
			put(int64(e.typ), w0)
			put(e.f2, w1)
			put(e.f3, w2)
		}
	}
	dict := syntax.D("Type", syntax.N("XRef"), "Size", syntax.I(int64(*size)),
		"W", syntax.A(syntax.I(int64(w0)), syntax.I(int64(w1)), syntax.I(int64(w2))))
	if !(ri == 0 && main && c.Intn(2) == 0) {
		dict = dict.With("Index", index)
	}
	if prev >= 0 {
		dict = dict.With("Prev", syntax.I(int64(prev)))
	}
	if main {
		dict.Dict = append(dict.Dict, rev.Trailer...)
	}
	enc, extra := w.encodeStream(data, w0+w1+w2, false)
	dict.Dict = append(dict.Dict, extra...)
	dict = dict.With("Length", syntax.I(int64(len(enc))))

	p := Placed{Rev: ri, Num: num, Offset: pos, Auto: "xref", Listed: self, IsStream: true}
	w.str(strconv.FormatUint(uint64(num), 10))
	w.gap(true)
	w.str("0")
	w.gap(true)
	w.str("obj")
	w.value(w.permute(dict))
	w.tok([]byte("stream"))
	w.eolNoCR()
	p.DataStart = w.off()
	p.DataLen = len(enc)
	w.raw(enc...)
	w.eol()
	w.str("endstream")
	w.tok([]byte("endobj"))
	w.eol()
	w.res.Placed = append(w.res.Placed, p)
	return pos
}
