package serial_test

import (
	"bytes"
	"fmt"
	"math"
	"sort"
	"testing"

	"seehuhn.de/go/pdf/verif/internal/indep/model"
	"seehuhn.de/go/pdf/verif/internal/indep/serial"
	"seehuhn.de/go/pdf/verif/internal/indep/strict"
	"seehuhn.de/go/pdf/verif/internal/indep/syntax"
)

// rng is a splitmix64 chooser for the tests.
type rng struct{ s uint64 }

func (r *rng) next() uint64 {
	r.s += 0x9E3779B97F4A7C15
	z := r.s
	z = (z ^ (z >> 30)) * 0xBF58476D1CE4E5B9
	z = (z ^ (z >> 27)) * 0x94D049BB133111EB
	return z ^ (z >> 31)
}
func (r *rng) Intn(n int) int { return int(r.next() % uint64(n)) }

var hostile = []byte{'(', ')', '\\', '\r', '\n', '#', '/', '%', '<', '>', '[', ']', '{', '}', ' ', 0, 0x7f, 0x80, 0xff, 'a', '\t', '\f', '0', '7', '8', 'R', 'n', '\b'}

func randBytes(r *rng, max int, name bool) []byte {
	n := r.Intn(max + 1)
	b := make([]byte, n)
	for i := range b {
		switch r.Intn(3) {
		case 0:
			b[i] = byte(r.Intn(256))
		case 1:
			b[i] = hostile[r.Intn(len(hostile))]
		default:
			b[i] = byte(0x21 + r.Intn(0x5e))
		}
		if name && b[i] == 0 {
			b[i] = 'z'
		}
	}
	return b
}

func randValue(r *rng, depth int) syntax.Value {
	k := r.Intn(11)
	if depth <= 0 && k >= 8 {
		k = r.Intn(8)
	}
	switch k {
	case 0:
		return syntax.NullV()
	case 1:
		return syntax.B(r.Intn(2) == 0)
	case 2:
		edge := []int64{0, 1, -1, 65535, math.MaxInt64, math.MinInt64, 1 << 31, -(1 << 31)}
		if r.Intn(2) == 0 {
			return syntax.I(edge[r.Intn(len(edge))])
		}
		return syntax.I(int64(r.next()))
	case 3:
		edge := []float64{0, math.Copysign(0, -1), 0.1, 1.0 / 3, 5e-324, math.MaxFloat64, -1e15, 4, 0.5, 1e-7}
		if r.Intn(2) == 0 {
			return syntax.R(edge[r.Intn(len(edge))])
		}
		for {
			f := math.Float64frombits(r.next())
			if !math.IsNaN(f) && !math.IsInf(f, 0) {
				return syntax.R(f)
			}
		}
	case 4:
		return syntax.Value{Kind: syntax.Name, Bytes: randBytes(r, 12, true)}
	case 5, 6:
		v := syntax.S(randBytes(r, 24, false))
		v.Hex = r.Intn(3) == 0
		return v
	case 7:
		return syntax.RefTo(uint32(r.Intn(100)), uint16(r.Intn(3)*r.Intn(65536)%65536))
	case 8, 9:
		v := syntax.A()
		for n := r.Intn(5); n > 0; n-- {
			v.Arr = append(v.Arr, randValue(r, depth-1))
		}
		return v
	default:
		v := syntax.D()
		seen := map[string]bool{}
		for n := r.Intn(5); n > 0; n-- {
			key := randBytes(r, 8, true)
			if seen[string(key)] {
				continue
			}
			seen[string(key)] = true
			v.Dict = append(v.Dict, syntax.Entry{Key: key, Val: randValue(r, depth-1)})
		}
		return v
	}
}

func TestRenderParse(t *testing.T) {
	for seed := uint64(1); seed <= 20000; seed++ {
		r := &rng{s: seed}
		v := randValue(r, 4)
		var c serial.Chooser = &rng{s: seed * 7919}
		if seed%10 == 0 {
			c = serial.Canonical{}
		}
		text := serial.RenderValue(v, c)
		// followed by a keyword, as inside an indirect object
		data := append(append([]byte{}, text...), " endobj"...)
		got, next, err := syntax.ParseObjectStrict(data, 0)
		if err != nil {
			t.Fatalf("seed %d: %q: %v", seed, text, err)
		}
		if !syntax.Equal(got, v) {
			t.Fatalf("seed %d: %q parsed as %v, want %v", seed, text, got, v)
		}
		if next != len(text) {
			t.Fatalf("seed %d: %q: consumed %d of %d bytes", seed, text, next, len(text))
		}
	}
}

// randHistory builds a random history in one of the two families.
func randHistory(r *rng, badLengths bool) []serial.Revision {
	k := 2 + r.Intn(7)
	nrev := 1 + r.Intn(4)
	streamFamily := r.Intn(2) == 0
	gens := map[uint32]uint16{}
	inUse := map[uint32]bool{}
	var revs []serial.Revision
	lenObjBase := uint32(k + 1)
	for ri := 0; ri < nrev; ri++ {
		rev := serial.Revision{Ops: map[uint32]serial.Op{}}
		if streamFamily {
			rev.Kind = serial.Stream
		} else if r.Intn(2) == 0 && ri > 0 {
			rev.Kind = serial.Hybrid
		} else {
			rev.Kind = serial.Table
		}
		for n := uint32(1); n <= uint32(k); n++ {
			act := r.Intn(3)
			if ri == 0 && n <= 2 {
				act = 1
			}
			switch act {
			case 1:
				op := serial.Op{Gen: gens[n], Value: randValue(r, 3)}
				if n == 1 {
					op.Value = syntax.D("Type", syntax.N("Catalog"), "Pages", syntax.RefTo(2, 0), "Rev", syntax.I(int64(ri)))
				}
				switch r.Intn(5) {
				case 0:
					op.Value = syntax.D("Marker", syntax.I(int64(r.Intn(1000))))
					data := randBytes(r, 60, false)
					op.Stream = &serial.StreamSpec{Data: data}
					if r.Intn(3) == 0 {
						op.Stream.LenMode = serial.LenIndirect
						op.Stream.LenObj = lenObjBase
						lenObjBase++
					}
					if badLengths && r.Intn(2) == 0 {
						data = bytes.ReplaceAll(data, []byte("\n"), []byte("x"))
						data = bytes.ReplaceAll(data, []byte("\r"), []byte("y"))
						data = append(data, 'e')
						op.Stream.Data = data
						switch r.Intn(4) {
						case 0:
							op.Stream.LenMode = serial.LenOmit
						case 1:
							op.Stream.LenMode = serial.LenOverride
							op.Stream.LenOverride = syntax.I(int64(len(data) + 1 + r.Intn(10000)))
						case 2:
							op.Stream.LenMode = serial.LenOverride
							op.Stream.LenOverride = syntax.R(float64(len(data)))
						default:
							op.Stream.LenMode = serial.LenOverride
							op.Stream.LenOverride = syntax.RefTo(9999, 0)
						}
					}
				case 1, 2:
					if op.Gen == 0 && rev.Kind != serial.Table {
						op.Compress = true
					}
				case 3:
					op.Hidden = rev.Kind == serial.Hybrid
				}
				rev.Ops[n] = op
				inUse[n] = true
			case 2:
				if inUse[n] {
					ng := gens[n] + 1
					if r.Intn(6) == 0 {
						ng = 65535
					}
					rev.Ops[n] = serial.Op{Free: true, NextGen: ng}
					if ng != 65535 {
						gens[n] = ng
					}
					inUse[n] = false
				}
			}
		}
		rev.Trailer = []syntax.Entry{
			{Key: []byte("Root"), Val: syntax.RefTo(1, 0)},
			{Key: []byte("XX_Rev"), Val: syntax.I(int64(ri))},
		}
		if r.Intn(2) == 0 {
			rev.Trailer = append(rev.Trailer, syntax.Entry{Key: []byte("ID"), Val: syntax.A(syntax.S([]byte("0123456789abcdef")), syntax.S(randBytes(r, 16, false)))})
		}
		revs = append(revs, rev)
	}
	return revs
}

func checkTriangle(t *testing.T, seed uint64, revs []serial.Revision, res *serial.Result, opt strict.Options) {
	t.Helper()
	data := res.Data[res.HeaderOffset:]
	f, err := strict.ParseWith(data, opt)
	if err != nil {
		t.Fatalf("seed %d: strict parser rejects the file: %v\n%s", seed, err, dump(res.Data))
	}
	want := model.Apply(revs)
	// autos other than length objects
	autos := map[uint32]serial.Placed{}
	for _, p := range res.Placed {
		if p.Auto == "xref" || p.Auto == "objstm" {
			if p.Listed {
				autos[p.Num] = p
			} else {
				delete(autos, p.Num)
			}
		} else {
			delete(autos, p.Num)
		}
	}
	for n, slot := range want {
		o, ok := f.Objects[n]
		if !slot.InUse {
			if ok {
				t.Fatalf("seed %d: object %d should be free, parser found %v\n%s", seed, n, o.Value, dump(res.Data))
			}
			if g, isFree := f.Free[n]; !isFree || g != slot.Gen {
				t.Fatalf("seed %d: object %d: free entry generation %d (present %v), want %d", seed, n, g, isFree, slot.Gen)
			}
			continue
		}
		if !ok {
			t.Fatalf("seed %d: object %d missing\n%s", seed, n, dump(res.Data))
		}
		if o.Gen != slot.Gen {
			t.Fatalf("seed %d: object %d: generation %d, want %d", seed, n, o.Gen, slot.Gen)
		}
		if slot.IsStream != o.IsStream {
			t.Fatalf("seed %d: object %d: stream-ness differs", seed, n)
		}
		got := o.Value
		if o.IsStream {
			got = got.Without("Length")
			if !bytes.Equal(o.RawStream, slot.Stream) {
				t.Fatalf("seed %d: object %d: stream data %q, want %q\n%s", seed, n, o.RawStream, slot.Stream, dump(res.Data))
			}
		}
		if !syntax.Equal(got, slot.Value) {
			t.Fatalf("seed %d: object %d: value %v, want %v\n%s", seed, n, got, slot.Value, dump(res.Data))
		}
	}
	for n := range f.Objects {
		if _, ok := want[n]; ok {
			continue
		}
		if _, ok := autos[n]; !ok {
			t.Fatalf("seed %d: parser invented object %d", seed, n)
		}
	}
	for n, g := range f.Free {
		if slot, ok := want[n]; ok && slot.InUse {
			t.Fatalf("seed %d: object %d is free (gen %d) for the parser but in use in the model", seed, n, g)
		}
	}
	// trailer of the newest revision
	lastRev := revs[len(revs)-1]
	for _, e := range lastRev.Trailer {
		if got := f.Trailer.Lookup(string(e.Key)); !syntax.Equal(got, e.Val) {
			t.Fatalf("seed %d: trailer /%s = %v, want %v", seed, e.Key, got, e.Val)
		}
	}
	if int(f.Size) != res.Size[len(res.Size)-1] || f.XRefOffset != res.XRefOffsets[len(res.XRefOffsets)-1] {
		t.Fatalf("seed %d: size/startxref mismatch", seed)
	}
	if len(f.Sections) != len(revs) {
		t.Fatalf("seed %d: %d sections, want %d", seed, len(f.Sections), len(revs))
	}
	// placed offsets
	for _, p := range res.Placed {
		if p.Offset < 0 {
			continue
		}
		if d := data[p.Offset]; d < '0' || d > '9' {
			t.Fatalf("seed %d: placed offset of %d %d does not point at a digit", seed, p.Num, p.Gen)
		}
	}
}

func dump(data []byte) string {
	if len(data) > 6000 {
		data = data[:6000]
	}
	return fmt.Sprintf("%q", data)
}

func TestHistoryTriangle(t *testing.T) {
	kinds := map[string]int{}
	for seed := uint64(1); seed <= 6000; seed++ {
		r := &rng{s: seed}
		revs := randHistory(r, false)
		opt := serial.Options{Choose: &rng{s: seed * 104729}, Version: []string{"1.4", "1.7", "2.0"}[seed%3]}
		if seed%7 == 0 {
			opt.Choose = nil
		}
		if seed%5 == 0 {
			opt.MaxJunk = 1000
		}
		res, err := serial.Write(revs, opt)
		if err != nil {
			t.Fatalf("seed %d: %v", seed, err)
		}
		if opt.MaxJunk == 0 && res.HeaderOffset != 0 {
			t.Fatalf("seed %d: junk without MaxJunk", seed)
		}
		checkTriangle(t, seed, revs, res, strict.Options{})
		for _, rev := range revs {
			kinds[rev.Kind.String()]++
		}
		kinds["objstm-tight"] += res.ObjStmTight
		kinds["objstm-adjacent"] += res.ObjStmAdjacent
		for _, ts := range res.TableSubs {
			if ts.Count != len(ts.Entries) || ts.First != ts.Entries[0] {
				t.Fatalf("seed %d: TableSub inconsistent: %+v", seed, ts)
			}
		}
		for _, w := range res.XRefW {
			if w[0] == 0 && w != [3]int{} {
				kinds["w0=0"]++
			}
			if w[1] > 4 {
				kinds["wide"]++
			}
		}
	}
	var ks []string
	for k, n := range kinds {
		ks = append(ks, fmt.Sprintf("%s=%d", k, n))
	}
	sort.Strings(ks)
	t.Log(ks)
	if kinds["objstm-tight"] < 100 || kinds["objstm-adjacent"] < 100 {
		t.Errorf("object streams without separators are not exercised: %v", ks)
	}
}

func TestBadLengths(t *testing.T) {
	rejected := 0
	for seed := uint64(1); seed <= 3000; seed++ {
		r := &rng{s: seed + 1<<32}
		revs := randHistory(r, true)
		res, err := serial.Write(revs, serial.Options{Choose: &rng{s: seed * 31}})
		if err != nil {
			t.Fatalf("seed %d: %v", seed, err)
		}
		if _, err := strict.Parse(res.Data); err != nil {
			rejected++
			if e, ok := err.(*strict.Error); !ok || e.Clause != strict.ClauseLength {
				t.Fatalf("seed %d: rejected for the wrong reason: %v\n%s", seed, err, dump(res.Data))
			}
		}
		checkTriangle(t, seed, revs, res, strict.Options{AllowBadLength: true})
	}
	if rejected < 300 {
		t.Errorf("only %d files with bad lengths were rejected by the default options", rejected)
	}
}

func TestCanonicalLooksLikePDF(t *testing.T) {
	revs := []serial.Revision{
		{Kind: serial.Table, Ops: map[uint32]serial.Op{
			1: {Value: syntax.D("Type", syntax.N("Catalog"), "Pages", syntax.RefTo(2, 0))},
			2: {Value: syntax.D("Type", syntax.N("Pages"), "Kids", syntax.A(), "Count", syntax.I(0))},
			3: {Value: syntax.D(), Stream: &serial.StreamSpec{Data: []byte("hello")}},
		}, Trailer: []syntax.Entry{{Key: []byte("Root"), Val: syntax.RefTo(1, 0)}}},
		{Kind: serial.Table, Ops: map[uint32]serial.Op{
			3: {Free: true, NextGen: 1},
		}, Trailer: []syntax.Entry{{Key: []byte("Root"), Val: syntax.RefTo(1, 0)}}},
	}
	res, err := serial.Write(revs, serial.Options{})
	if err != nil {
		t.Fatal(err)
	}
	want := "%PDF-1.7\n%\xe2\xe3\xcf\xd3\n1 0 obj << /Type /Catalog /Pages 2 0 R >> endobj\n2 0 obj << /Type /Pages /Kids [ ] /Count 0 >> endobj\n" +
		"3 0 obj << /Length 5 >> stream\nhello\nendstream endobj\nxref\n0 4\n0000000000 65535 f \n0000000015 00000 n \n0000000064 00000 n \n0000000117 00000 n \n" +
		"trailer\n<< /Size 4 /Root 1 0 R >>\nstartxref\n171\n%%EOF\n" +
		"xref\n0 1\n0000000003 65535 f \n3 1\n0000000000 00001 f \ntrailer\n<< /Size 4 /Prev 171 /Root 1 0 R >>\nstartxref\n314\n%%EOF\n"
	if string(res.Data) != want {
		t.Errorf("canonical rendering:\n%s\nwant:\n%s", res.Data, want)
	}
}
