package syntax

import (
	"fmt"
	"math"
	"strconv"
)

// SyntaxError describes a violation of the object syntax.
type SyntaxError struct {
	Pos int
	Msg string
}

func (e *SyntaxError) Error() string { return fmt.Sprintf("syntax error at byte %d: %s", e.Pos, e.Msg) }

func errAt(pos int, format string, args ...any) error {
	return &SyntaxError{Pos: pos, Msg: fmt.Sprintf(format, args...)}
}

// IsWhite reports whether b is one of the six white-space characters of
// ISO 32000 table 1.
func IsWhite(b byte) bool {
	return b == 0 || b == 9 || b == 10 || b == 12 || b == 13 || b == 32
}

// IsDelim reports whether b is a delimiter character (table 2).
func IsDelim(b byte) bool {
	switch b {
	case '(', ')', '<', '>', '[', ']', '{', '}', '/', '%':
		return true
	}
	return false
}

// IsRegular reports whether b is a regular character.
func IsRegular(b byte) bool { return !IsWhite(b) && !IsDelim(b) }

// SkipWS skips white space and comments starting at pos and returns the
// offset of the first byte that belongs to a token (or len(data)).
func SkipWS(data []byte, pos int) int {
	for pos < len(data) {
		b := data[pos]
		if IsWhite(b) {
			pos++
			continue
		}
		if b == '%' {
			for pos < len(data) && data[pos] != '\r' && data[pos] != '\n' {
				pos++
			}
			continue
		}
		break
	}
	return pos
}

func hexVal(b byte) int {
	switch {
	case b >= '0' && b <= '9':
		return int(b - '0')
	case b >= 'a' && b <= 'f':
		return int(b-'a') + 10
	case b >= 'A' && b <= 'F':
		return int(b-'A') + 10
	}
	return -1
}

// Parser parses objects from a byte slice.
//
// In strict mode the parser rejects what ISO 32000 forbids:
//   - a '#' in a name that is not followed by two hexadecimal digits, and #00;
//   - characters other than hexadecimal digits and white space in a hex string;
//   - duplicate keys in one dictionary;
//   - generation numbers above 65535 in references.
//
// Both modes reject: unbalanced literal strings, unterminated strings, arrays
// and dictionaries, a dictionary key that is not a name, a key without
// value, stray delimiters, unknown keywords, malformed numbers.
//
// Both modes accept what ISO 32000 explicitly allows: any escape sequence in
// a literal string (a backslash before an unknown character is ignored),
// octal escapes with overflow (high-order bits dropped), an odd number of hex
// digits, comments and any white space between tokens.
type Parser struct {
	Data     []byte
	Strict   bool
	MaxDepth int // 0 = 500
}

// ParseObject parses one object in lenient mode.
func ParseObject(data []byte, pos int) (Value, int, error) {
	p := Parser{Data: data}
	return p.Object(pos)
}

// ParseObjectStrict parses one object in strict mode.
func ParseObjectStrict(data []byte, pos int) (Value, int, error) {
	p := Parser{Data: data, Strict: true}
	return p.Object(pos)
}

// Object parses the object which starts at or after pos (white space and
// comments are skipped) and returns it together with the offset of the first
// byte after it.  Two non-negative integers followed by the keyword R form an
// indirect reference.
func (p *Parser) Object(pos int) (Value, int, error) {
	return p.object(pos, 0)
}

func (p *Parser) maxDepth() int {
	if p.MaxDepth > 0 {
		return p.MaxDepth
	}
	return 500
}

// regularRun returns the end of the run of regular characters starting at pos.
func regularRun(data []byte, pos int) int {
	for pos < len(data) && IsRegular(data[pos]) {
		pos++
	}
	return pos
}

func allDigits(b []byte) bool {
	if len(b) == 0 {
		return false
	}
	for _, c := range b {
		if c < '0' || c > '9' {
			return false
		}
	}
	return true
}

// parseNumber interprets a run of regular characters as a number (7.3.3).
func parseNumber(tok []byte) (Value, bool) {
	s := tok
	if len(s) > 0 && (s[0] == '+' || s[0] == '-') {
		s = s[1:]
	}
	if len(s) == 0 {
		return Value{}, false
	}
	dots, digits := 0, 0
	for _, c := range s {
		switch {
		case c == '.':
			dots++
		case c >= '0' && c <= '9':
			digits++
		default:
			return Value{}, false
		}
	}
	if digits == 0 || dots > 1 {
		return Value{}, false
	}
	if dots == 0 {
		if i, err := strconv.ParseInt(string(tok), 10, 64); err == nil {
			return I(i), true
		}
		// out of the integer range: an implementation limit, converted to real
		f, err := strconv.ParseFloat(string(tok), 64)
		if err != nil && math.IsInf(f, 0) {
			return Value{}, false
		}
		return R(f), true
	}
	f, err := strconv.ParseFloat(string(tok), 64)
	if err != nil && math.IsInf(f, 0) {
		return Value{}, false
	}
	return R(f), true
}

func (p *Parser) object(pos, depth int) (Value, int, error) {
	data := p.Data
	pos = SkipWS(data, pos)
	if pos >= len(data) {
		return Value{}, pos, errAt(pos, "unexpected end of data")
	}
	if depth > p.maxDepth() {
		return Value{}, pos, errAt(pos, "nesting too deep")
	}
	b := data[pos]
	switch {
	case b == '/':
		name, next, err := p.name(pos)
		if err != nil {
			return Value{}, pos, err
		}
		return Value{Kind: Name, Bytes: name}, next, nil
	case b == '(':
		s, next, err := p.literal(pos)
		if err != nil {
			return Value{}, pos, err
		}
		return Value{Kind: String, Bytes: s}, next, nil
	case b == '<':
		if pos+1 < len(data) && data[pos+1] == '<' {
			return p.dict(pos, depth)
		}
		s, next, err := p.hexString(pos)
		if err != nil {
			return Value{}, pos, err
		}
		return Value{Kind: String, Bytes: s, Hex: true}, next, nil
	case b == '[':
		return p.array(pos, depth)
	case IsDelim(b):
		return Value{}, pos, errAt(pos, "unexpected delimiter %q", b)
	}
	end := regularRun(data, pos)
	tok := data[pos:end]
	switch string(tok) {
	case "true":
		return B(true), end, nil
	case "false":
		return B(false), end, nil
	case "null":
		return NullV(), end, nil
	}
	v, ok := parseNumber(tok)
	if !ok {
		return Value{}, pos, errAt(pos, "unexpected keyword %q", clip(tok))
	}
	if v.Kind == Int && allDigits(tok) {
		// look ahead for "gen R"
		p2 := SkipWS(data, end)
		e2 := regularRun(data, p2)
		if allDigits(data[p2:e2]) {
			p3 := SkipWS(data, e2)
			e3 := regularRun(data, p3)
			if e3 == p3+1 && data[p3] == 'R' {
				g, err := strconv.ParseUint(string(data[p2:e2]), 10, 64)
				if err != nil || v.Int > math.MaxUint32 {
					return Value{}, pos, errAt(pos, "reference out of range")
				}
				if g > 65535 {
					if p.Strict {
						return Value{}, pos, errAt(p2, "generation number %d above 65535", g)
					}
					g = 65535
				}
				return RefTo(uint32(v.Int), uint16(g)), e3, nil
			}
		}
	}
	return v, end, nil
}

func clip(b []byte) []byte {
	if len(b) > 40 {
		return b[:40]
	}
	return b
}

// name parses a name object starting at the slash (7.3.5).
func (p *Parser) name(pos int) ([]byte, int, error) {
	data := p.Data
	i := pos + 1
	out := []byte{}
	for i < len(data) && IsRegular(data[i]) {
		c := data[i]
		if c == '#' {
			if i+2 < len(data) && hexVal(data[i+1]) >= 0 && hexVal(data[i+2]) >= 0 {
				x := byte(hexVal(data[i+1])<<4 | hexVal(data[i+2]))
				if x == 0 && p.Strict {
					return nil, pos, errAt(i, "#00 in a name")
				}
				out = append(out, x)
				i += 3
				continue
			}
			if p.Strict {
				return nil, pos, errAt(i, "'#' in a name is not followed by two hexadecimal digits")
			}
		}
		out = append(out, c)
		i++
	}
	return out, i, nil
}

// literal parses a literal string starting at the opening parenthesis (7.3.4.2).
func (p *Parser) literal(pos int) ([]byte, int, error) {
	data := p.Data
	i := pos + 1
	depth := 1
	out := []byte{}
	for {
		if i >= len(data) {
			return nil, pos, errAt(pos, "unterminated literal string")
		}
		c := data[i]
		switch c {
		case '(':
			depth++
			out = append(out, c)
			i++
		case ')':
			depth--
			i++
			if depth == 0 {
				return out, i, nil
			}
			out = append(out, c)
		case '\r':
			// an end-of-line marker within a string is read as LF
			out = append(out, '\n')
			i++
			if i < len(data) && data[i] == '\n' {
				i++
			}
		case '\\':
			i++
			if i >= len(data) {
				return nil, pos, errAt(pos, "unterminated literal string")
			}
			e := data[i]
			switch e {
			case 'n':
				out = append(out, '\n')
				i++
			case 'r':
				out = append(out, '\r')
				i++
			case 't':
				out = append(out, '\t')
				i++
			case 'b':
				out = append(out, '\b')
				i++
			case 'f':
				out = append(out, '\f')
				i++
			case '(', ')', '\\':
				out = append(out, e)
				i++
			case '\r':
				i++
				if i < len(data) && data[i] == '\n' {
					i++
				}
			case '\n':
				i++
			case '0', '1', '2', '3', '4', '5', '6', '7':
				v := 0
				n := 0
				for n < 3 && i < len(data) && data[i] >= '0' && data[i] <= '7' {
					v = v*8 + int(data[i]-'0')
					i++
					n++
				}
				out = append(out, byte(v)) // high-order overflow ignored
			default:
				// the backslash is ignored, the character is read normally
				// (it cannot be a parenthesis, CR or backslash here)
				out = append(out, e)
				i++
			}
		default:
			out = append(out, c)
			i++
		}
	}
}

// hexString parses a hexadecimal string starting at '<' (7.3.4.3).
func (p *Parser) hexString(pos int) ([]byte, int, error) {
	data := p.Data
	i := pos + 1
	out := []byte{}
	have := false
	var hi int
	for {
		if i >= len(data) {
			return nil, pos, errAt(pos, "unterminated hexadecimal string")
		}
		c := data[i]
		i++
		if c == '>' {
			break
		}
		if IsWhite(c) {
			continue
		}
		h := hexVal(c)
		if h < 0 {
			if p.Strict {
				return nil, pos, errAt(i-1, "character %q in a hexadecimal string", c)
			}
			continue
		}
		if have {
			out = append(out, byte(hi<<4|h))
			have = false
		} else {
			hi = h
			have = true
		}
	}
	if have {
		out = append(out, byte(hi<<4))
	}
	return out, i, nil
}

func (p *Parser) array(pos, depth int) (Value, int, error) {
	data := p.Data
	i := pos + 1
	v := Value{Kind: Array, Arr: []Value{}}
	for {
		i = SkipWS(data, i)
		if i >= len(data) {
			return Value{}, pos, errAt(pos, "unterminated array")
		}
		if data[i] == ']' {
			return v, i + 1, nil
		}
		e, next, err := p.object(i, depth+1)
		if err != nil {
			return Value{}, pos, err
		}
		v.Arr = append(v.Arr, e)
		i = next
	}
}

func (p *Parser) dict(pos, depth int) (Value, int, error) {
	data := p.Data
	i := pos + 2
	v := Value{Kind: Dict, Dict: []Entry{}}
	var seen map[string]bool
	if p.Strict {
		seen = map[string]bool{}
	}
	for {
		i = SkipWS(data, i)
		if i >= len(data) {
			return Value{}, pos, errAt(pos, "unterminated dictionary")
		}
		if data[i] == '>' {
			if i+1 < len(data) && data[i+1] == '>' {
				return v, i + 2, nil
			}
			return Value{}, pos, errAt(i, "single '>' in a dictionary")
		}
		if data[i] != '/' {
			return Value{}, pos, errAt(i, "dictionary key is not a name")
		}
		key, next, err := p.name(i)
		if err != nil {
			return Value{}, pos, err
		}
		if p.Strict {
			if seen[string(key)] {
				return Value{}, pos, errAt(i, "duplicate dictionary key %q", clip(key))
			}
			seen[string(key)] = true
		}
		j := SkipWS(data, next)
		if j < len(data) && data[j] == '>' && j+1 < len(data) && data[j+1] == '>' {
			return Value{}, pos, errAt(j, "dictionary key %q without value", clip(key))
		}
		val, next2, err := p.object(j, depth+1)
		if err != nil {
			return Value{}, pos, err
		}
		v.Dict = append(v.Dict, Entry{Key: key, Val: val})
		i = next2
	}
}
