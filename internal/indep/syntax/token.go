package syntax

import "bytes"

// TokKind is the kind of a Token.
type TokKind uint8

// Token kinds.
const (
	TokEOF TokKind = iota
	TokInt
	TokReal
	TokName
	TokString
	TokHexString
	TokArrayOpen
	TokArrayClose
	TokDictOpen
	TokDictClose
	TokKeyword // true false null obj endobj stream endstream R xref trailer startxref f n ...
	TokComment
	TokStreamData
	TokError
)

func (k TokKind) String() string {
	names := []string{"eof", "int", "real", "name", "string", "hexstring", "[", "]", "<<", ">>",
		"keyword", "comment", "streamdata", "error"}
	if int(k) < len(names) {
		return names[k]
	}
	return "tok?"
}

// Token is one lexical token with its byte range [Pos, End).
type Token struct {
	Kind  TokKind
	Pos   int
	End   int
	Int   int64
	Real  float64
	Bytes []byte // decoded name / string, keyword text, comment text (without '%')
}

// NextToken returns the token which starts at or after pos.  Only white
// space is skipped; comments are tokens.  The function never fails: bytes
// that do not form a token are returned as TokError tokens (at least one
// byte long), so that a caller can always make progress.
func NextToken(data []byte, pos int) Token {
	for pos < len(data) && IsWhite(data[pos]) {
		pos++
	}
	if pos >= len(data) {
		return Token{Kind: TokEOF, Pos: len(data), End: len(data)}
	}
	p := Parser{Data: data}
	b := data[pos]
	switch b {
	case '%':
		end := pos
		for end < len(data) && data[end] != '\r' && data[end] != '\n' {
			end++
		}
		return Token{Kind: TokComment, Pos: pos, End: end, Bytes: data[pos+1 : end]}
	case '/':
		name, next, _ := p.name(pos)
		return Token{Kind: TokName, Pos: pos, End: next, Bytes: name}
	case '(':
		s, next, err := p.literal(pos)
		if err != nil {
			return Token{Kind: TokError, Pos: pos, End: pos + 1}
		}
		return Token{Kind: TokString, Pos: pos, End: next, Bytes: s}
	case '<':
		if pos+1 < len(data) && data[pos+1] == '<' {
			return Token{Kind: TokDictOpen, Pos: pos, End: pos + 2}
		}
		s, next, err := p.hexString(pos)
		if err != nil {
			return Token{Kind: TokError, Pos: pos, End: pos + 1}
		}
		return Token{Kind: TokHexString, Pos: pos, End: next, Bytes: s}
	case '>':
		if pos+1 < len(data) && data[pos+1] == '>' {
			return Token{Kind: TokDictClose, Pos: pos, End: pos + 2}
		}
		return Token{Kind: TokError, Pos: pos, End: pos + 1}
	case '[':
		return Token{Kind: TokArrayOpen, Pos: pos, End: pos + 1}
	case ']':
		return Token{Kind: TokArrayClose, Pos: pos, End: pos + 1}
	case ')', '{', '}':
		return Token{Kind: TokError, Pos: pos, End: pos + 1}
	}
	end := regularRun(data, pos)
	tok := data[pos:end]
	if v, ok := parseNumber(tok); ok {
		if v.Kind == Int {
			return Token{Kind: TokInt, Pos: pos, End: end, Int: v.Int}
		}
		return Token{Kind: TokReal, Pos: pos, End: end, Real: v.Real}
	}
	return Token{Kind: TokKeyword, Pos: pos, End: end, Bytes: tok}
}

// Tokens splits the whole buffer into tokens.  After the keyword "stream"
// followed by CR LF, LF (or a lone CR) one TokStreamData token covers the
// bytes up to the end-of-line marker that precedes the next "endstream" (up
// to the keyword itself if there is no such marker, up to the end of the
// data if there is no keyword).  The terminating TokEOF token is not included.
func Tokens(data []byte) []Token {
	var out []Token
	pos := 0
	for {
		t := NextToken(data, pos)
		if t.Kind == TokEOF {
			return out
		}
		out = append(out, t)
		pos = t.End
		if t.Kind == TokKeyword && string(t.Bytes) == "stream" {
			start := -1
			switch {
			case pos+1 < len(data) && data[pos] == '\r' && data[pos+1] == '\n':
				start = pos + 2
			case pos < len(data) && (data[pos] == '\n' || data[pos] == '\r'):
				start = pos + 1
			}
			if start < 0 {
				continue
			}
			end := len(data)
			if k := bytes.Index(data[start:], []byte("endstream")); k >= 0 {
				end = start + k
				if end > start && data[end-1] == '\n' {
					end--
					if end > start && data[end-1] == '\r' {
						end--
					}
				} else if end > start && data[end-1] == '\r' {
					end--
				}
			}
			out = append(out, Token{Kind: TokStreamData, Pos: start, End: end, Bytes: data[start:end]})
			pos = end
		}
	}
}
