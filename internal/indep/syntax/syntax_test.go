package syntax

import (
	"bytes"
	"testing"
)

func TestISOExamples(t *testing.T) {
	cases := []struct {
		in   string
		want Value
	}{
		{"(This is a string)", S([]byte("This is a string"))},
		{"(Strings may contain newlines\nand such.)", S([]byte("Strings may contain newlines\nand such."))},
		{"(Strings may contain balanced parentheses ( ) and\nspecial characters (*!&}^% and so on).)",
			S([]byte("Strings may contain balanced parentheses ( ) and\nspecial characters (*!&}^% and so on)."))},
		{"()", S(nil)},
		{"(These \\\ntwo strings \\\r\nare the same.)", S([]byte("These two strings are the same."))},
		{"(a\r\nb\rc\nd)", S([]byte("a\nb\nc\nd"))},
		{"(\\0053)", S([]byte("\x053"))},
		{"(\\053)", S([]byte("+"))},
		{"(\\53)", S([]byte("+"))},
		{"(\\5x)", S([]byte("\x05x"))},
		{"(\\777)", S([]byte{0xff})},
		{"(\\q\\n\\r\\t\\b\\f\\(\\)\\\\)", S([]byte("q\n\r\t\b\f()\\"))},
		{"<4E6F762073686D6F7A206B6120706F702E>", S([]byte("Nov shmoz ka pop."))},
		{"<901FA3>", S([]byte{0x90, 0x1f, 0xa3})},
		{"<901FA>", S([]byte{0x90, 0x1f, 0xa0})},
		{"< 9 0\n1f\tA >", S([]byte{0x90, 0x1f, 0xa0})},
		{"<>", S(nil)},
		{"/Name1", N("Name1")},
		{"/A;Name_With-Various***Characters?", N("A;Name_With-Various***Characters?")},
		{"/1.2", N("1.2")},
		{"/$$", N("$$")},
		{"/@pattern", N("@pattern")},
		{"/.notdef", N(".notdef")},
		{"/Lime#20Green", N("Lime Green")},
		{"/paired#28#29parentheses", N("paired()parentheses")},
		{"/The_Key_of_F#23_Minor", N("The_Key_of_F#_Minor")},
		{"/A#42", N("AB")},
		{"/", N("")},
		{"123", I(123)}, {"43445", I(43445)}, {"+17", I(17)}, {"-98", I(-98)}, {"0", I(0)},
		{"34.5", R(34.5)}, {"-3.62", R(-3.62)}, {"+123.6", R(123.6)}, {"4.", R(4)}, {"-.002", R(-.002)}, {"0.0", R(0)},
		{"99999999999999999999", R(1e20)},
		{"true", B(true)}, {"false", B(false)}, {"null", NullV()},
		{"[549 3.14 false (Ralph) /SomeName]", A(I(549), R(3.14), B(false), S([]byte("Ralph")), N("SomeName"))},
		{"[1 2 3 0 R 4]", A(I(1), I(2), RefTo(3, 0), I(4))},
		{"[1 0 R 2 0 R]", A(RefTo(1, 0), RefTo(2, 0))},
		{"12 0 R", RefTo(12, 0)},
		{"12%c\n0%c\rR", RefTo(12, 0)},
		{"<</Type/Example/Subtype/DictionaryExample/Version 0.01/IntegerItem 12/StringItem(a string)/Subdictionary<</Item1 0.4/Item2 true>>>>",
			D("Type", N("Example"), "Subtype", N("DictionaryExample"), "Version", R(0.01), "IntegerItem", I(12),
				"StringItem", S([]byte("a string")), "Subdictionary", D("Item1", R(0.4), "Item2", B(true)))},
		{"<</K<AB>>>", D("K", S([]byte{0xab}))},
		{"<< /A 1 0 R /B 2 >>", D("A", RefTo(1, 0), "B", I(2))},
		{"\x00\t\f % comment\r\n 7", I(7)},
	}
	for _, c := range cases {
		for _, strict := range []bool{false, true} {
			p := Parser{Data: []byte(c.in), Strict: strict}
			v, next, err := p.Object(0)
			if err != nil {
				t.Errorf("%q (strict=%v): %v", c.in, strict, err)
				continue
			}
			if !Equal(v, c.want) {
				t.Errorf("%q: got %v, want %v", c.in, v, c.want)
			}
			if next != len(c.in) {
				t.Errorf("%q: stopped at %d of %d", c.in, next, len(c.in))
			}
		}
	}
}

func TestIntThenEndobj(t *testing.T) {
	data := []byte("5 0 obj 7 endobj")
	v, next, err := ParseObjectStrict(data, 7)
	if err != nil || !Equal(v, I(7)) || next != 9 {
		t.Fatalf("got %v %d %v", v, next, err)
	}
	data = []byte("5 0 obj 7 0 R endobj")
	v, next, err = ParseObjectStrict(data, 7)
	if err != nil || !Equal(v, RefTo(7, 0)) || next != 13 {
		t.Fatalf("got %v %d %v", v, next, err)
	}
}

func TestStrictRejects(t *testing.T) {
	both := []string{"(abc", "(a(b)", "<12", "[1 2", "<</A 1", "<</A>>", "<<1 2>>", ")", "}", "{", ">", "foo", "1.2.3", "--1", "+", ".", "<</A 1>"}
	for _, s := range both {
		if _, _, err := ParseObject([]byte(s), 0); err == nil {
			t.Errorf("lenient parser accepts %q", s)
		}
		if _, _, err := ParseObjectStrict([]byte(s), 0); err == nil {
			t.Errorf("strict parser accepts %q", s)
		}
	}
	strictOnly := []string{"/A#4", "/A#", "/A#G0", "/A#00B", "<9G>", "<</A 1/A 2>>", "1 65536 R"}
	for _, s := range strictOnly {
		if _, _, err := ParseObject([]byte(s), 0); err != nil {
			t.Errorf("lenient parser rejects %q: %v", s, err)
		}
		if _, _, err := ParseObjectStrict([]byte(s), 0); err == nil {
			t.Errorf("strict parser accepts %q", s)
		}
	}
}

func TestEqual(t *testing.T) {
	a := D("A", I(1), "B", NullV(), "C", A())
	b := D("C", A(), "A", I(1))
	if !Equal(a, b) {
		t.Error("dict order / null entries")
	}
	if Equal(R(1), I(1)) || Equal(S([]byte("a")), N("a")) || Equal(A(), NullV()) {
		t.Error("kinds confused")
	}
	c := a.With("A", I(2)).Without("B")
	if v, _ := c.Get("A"); v.Int != 2 || len(c.Dict) != 2 {
		t.Errorf("With/Without: %v", c)
	}
}

func TestTokens(t *testing.T) {
	data := []byte("%PDF-1.7\n1 0 obj\n<</Length 5/K(a\\)b)>>\nstream\r\nab\ncd\r\nendstream endobj\nxref\n0 1\n0000000000 65535 f \ntrailer<</Size 1>>\nstartxref\n9\n%%EOF")
	toks := Tokens(data)
	var kinds []TokKind
	for _, tk := range toks {
		kinds = append(kinds, tk.Kind)
		if tk.End <= tk.Pos && tk.Kind != TokStreamData {
			t.Fatalf("empty token %v at %d", tk.Kind, tk.Pos)
		}
	}
	var sd *Token
	for i := range toks {
		if toks[i].Kind == TokStreamData {
			sd = &toks[i]
		}
	}
	if sd == nil || !bytes.Equal(sd.Bytes, []byte("ab\ncd")) {
		t.Fatalf("stream data token: %+v (kinds %v)", sd, kinds)
	}
	if toks[0].Kind != TokComment || string(toks[0].Bytes) != "PDF-1.7" {
		t.Errorf("first token %+v", toks[0])
	}
	last := toks[len(toks)-1]
	if last.Kind != TokComment || string(last.Bytes) != "%EOF" {
		t.Errorf("last token %+v", last)
	}
	// tokens tile the input up to white space, in order
	pos := 0
	for _, tk := range toks {
		if tk.Pos < pos {
			t.Fatalf("token at %d overlaps previous end %d", tk.Pos, pos)
		}
		for _, b := range data[pos:tk.Pos] {
			if !IsWhite(b) {
				t.Fatalf("byte %q between tokens", b)
			}
		}
		pos = tk.End
	}
	// garbage never loops
	junk := []byte(")}>{(\\")
	if n := len(Tokens(junk)); n == 0 {
		t.Error("no tokens for junk")
	}
}
