// Package syntax is a tokenizer and object parser for the PDF object syntax,
// written from ISO 32000 (clauses 7.2 and 7.3).  It shares no code with
// seehuhn.de/go/pdf and imports the standard library only.
package syntax

import (
	"bytes"
	"fmt"
	"sort"
	"strconv"
	"strings"
)

// Kind is the type of a Value.
type Kind uint8

// The kinds of PDF objects.
const (
	Null Kind = iota
	Bool
	Int
	Real
	Name
	String
	Array
	Dict
	Ref
)

func (k Kind) String() string {
	switch k {
	case Null:
		return "null"
	case Bool:
		return "bool"
	case Int:
		return "int"
	case Real:
		return "real"
	case Name:
		return "name"
	case String:
		return "string"
	case Array:
		return "array"
	case Dict:
		return "dict"
	case Ref:
		return "ref"
	}
	return "kind?" + strconv.Itoa(int(k))
}

// Entry is one dictionary entry.  Key holds the decoded bytes of the name,
// without the leading slash.
type Entry struct {
	Key []byte `json:"k"`
	Val Value  `json:"v"`
}

// Value is a PDF object (everything except streams).
type Value struct {
	Kind  Kind    `json:"t"`
	Bool  bool    `json:"b,omitempty"`
	Int   int64   `json:"i,omitempty"`
	Real  float64 `json:"f,omitempty"`
	Bytes []byte  `json:"s,omitempty"` // Name or String, decoded
	Arr   []Value `json:"a,omitempty"`
	Dict  []Entry `json:"d,omitempty"` // in file order
	Num   uint32  `json:"n,omitempty"`
	Gen   uint16  `json:"g,omitempty"`
	Hex   bool    `json:"x,omitempty"` // String: written as hex string (hint only)
}

// NullV returns the null object.
func NullV() Value { return Value{Kind: Null} }

// B returns a boolean object.
func B(b bool) Value { return Value{Kind: Bool, Bool: b} }

// I returns an integer object.
func I(i int64) Value { return Value{Kind: Int, Int: i} }

// R returns a real object.
func R(f float64) Value { return Value{Kind: Real, Real: f} }

// N returns a name object.
func N(name string) Value { return Value{Kind: Name, Bytes: []byte(name)} }

// S returns a string object.
func S(b []byte) Value { return Value{Kind: String, Bytes: append([]byte{}, b...)} }

// A returns an array object.
func A(elems ...Value) Value {
	return Value{Kind: Array, Arr: append([]Value{}, elems...)}
}

// D returns a dictionary; the arguments alternate between keys (string or
// []byte) and values (Value).
func D(kv ...any) Value {
	if len(kv)%2 != 0 {
		panic("syntax.D: odd number of arguments")
	}
	v := Value{Kind: Dict, Dict: []Entry{}}
	for i := 0; i < len(kv); i += 2 {
		var key []byte
		switch k := kv[i].(type) {
		case string:
			key = []byte(k)
		case []byte:
			key = append([]byte{}, k...)
		default:
			panic(fmt.Sprintf("syntax.D: bad key type %T", kv[i]))
		}
		val, ok := kv[i+1].(Value)
		if !ok {
			panic(fmt.Sprintf("syntax.D: bad value type %T", kv[i+1]))
		}
		v.Dict = append(v.Dict, Entry{Key: key, Val: val})
	}
	return v
}

// RefTo returns an indirect reference.
func RefTo(num uint32, gen uint16) Value { return Value{Kind: Ref, Num: num, Gen: gen} }

// IsNull reports whether v is the null object.
func (v Value) IsNull() bool { return v.Kind == Null }

// Get looks up a key in a dictionary (first match).
func (v Value) Get(key string) (Value, bool) {
	if v.Kind != Dict {
		return Value{}, false
	}
	for _, e := range v.Dict {
		if string(e.Key) == key {
			return e.Val, true
		}
	}
	return Value{}, false
}

// Lookup is Get without the presence flag; it returns null for absent keys.
func (v Value) Lookup(key string) Value {
	x, _ := v.Get(key)
	return x
}

// With returns a copy of the dictionary v with key set to val.
func (v Value) With(key string, val Value) Value {
	out := Value{Kind: Dict, Dict: make([]Entry, 0, len(v.Dict)+1)}
	done := false
	for _, e := range v.Dict {
		if string(e.Key) == key {
			if !done {
				out.Dict = append(out.Dict, Entry{Key: e.Key, Val: val})
				done = true
			}
			continue
		}
		out.Dict = append(out.Dict, e)
	}
	if !done {
		out.Dict = append(out.Dict, Entry{Key: []byte(key), Val: val})
	}
	return out
}

// Without returns a copy of the dictionary v without key.
func (v Value) Without(key string) Value {
	out := Value{Kind: Dict, Dict: make([]Entry, 0, len(v.Dict))}
	for _, e := range v.Dict {
		if string(e.Key) != key {
			out.Dict = append(out.Dict, e)
		}
	}
	return out
}

// Clone returns a deep copy.
func (v Value) Clone() Value {
	out := v
	if v.Bytes != nil {
		out.Bytes = append([]byte{}, v.Bytes...)
	}
	if v.Arr != nil {
		out.Arr = make([]Value, len(v.Arr))
		for i, e := range v.Arr {
			out.Arr[i] = e.Clone()
		}
	}
	if v.Dict != nil {
		out.Dict = make([]Entry, len(v.Dict))
		for i, e := range v.Dict {
			out.Dict[i] = Entry{Key: append([]byte{}, e.Key...), Val: e.Val.Clone()}
		}
	}
	return out
}

// normDict returns the effective entries of a dictionary: for duplicate keys
// the first entry counts, entries whose value is null are dropped (7.3.7: a
// null value is equivalent to an absent entry); sorted by key.
func normDict(d []Entry) []Entry {
	out := make([]Entry, 0, len(d))
	seen := map[string]bool{}
	for _, e := range d {
		k := string(e.Key)
		if seen[k] {
			continue
		}
		seen[k] = true
		if e.Val.Kind == Null {
			continue
		}
		out = append(out, e)
	}
	sort.Slice(out, func(i, j int) bool { return bytes.Compare(out[i].Key, out[j].Key) < 0 })
	return out
}

// Equal compares two values structurally.  The order of dictionary entries is
// ignored, a null dictionary value equals an absent entry, reals are compared
// with ==, the Hex hint is ignored.
func Equal(a, b Value) bool {
	if a.Kind != b.Kind {
		return false
	}
	switch a.Kind {
	case Null:
		return true
	case Bool:
		return a.Bool == b.Bool
	case Int:
		return a.Int == b.Int
	case Real:
		return a.Real == b.Real
	case Name, String:
		return bytes.Equal(a.Bytes, b.Bytes)
	case Ref:
		return a.Num == b.Num && a.Gen == b.Gen
	case Array:
		if len(a.Arr) != len(b.Arr) {
			return false
		}
		for i := range a.Arr {
			if !Equal(a.Arr[i], b.Arr[i]) {
				return false
			}
		}
		return true
	case Dict:
		x, y := normDict(a.Dict), normDict(b.Dict)
		if len(x) != len(y) {
			return false
		}
		for i := range x {
			if !bytes.Equal(x[i].Key, y[i].Key) || !Equal(x[i].Val, y[i].Val) {
				return false
			}
		}
		return true
	}
	return false
}

// String renders the value for messages (not valid PDF for hostile names).
func (v Value) String() string {
	var sb strings.Builder
	v.show(&sb)
	s := sb.String()
	if len(s) > 400 {
		s = s[:400] + "..."
	}
	return s
}

func (v Value) show(sb *strings.Builder) {
	switch v.Kind {
	case Null:
		sb.WriteString("null")
	case Bool:
		fmt.Fprintf(sb, "%v", v.Bool)
	case Int:
		fmt.Fprintf(sb, "%d", v.Int)
	case Real:
		fmt.Fprintf(sb, "real(%v)", v.Real)
	case Name:
		fmt.Fprintf(sb, "/%q", v.Bytes)
	case String:
		fmt.Fprintf(sb, "(%q)", v.Bytes)
	case Ref:
		fmt.Fprintf(sb, "%d %d R", v.Num, v.Gen)
	case Array:
		sb.WriteString("[")
		for i, e := range v.Arr {
			if i > 0 {
				sb.WriteString(" ")
			}
			e.show(sb)
		}
		sb.WriteString("]")
	case Dict:
		sb.WriteString("<<")
		for _, e := range v.Dict {
			fmt.Fprintf(sb, "/%q ", e.Key)
			e.Val.show(sb)
			sb.WriteString(" ")
		}
		sb.WriteString(">>")
	}
}
