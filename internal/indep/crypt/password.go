package crypt

import (
	"errors"
	"unicode/utf8"

	"github.com/xdg-go/stringprep"
)

// ErrNotEncodable is returned when a password has no prepared form.
var ErrNotEncodable = errors.New("crypt: password cannot be prepared")

// PadString is the 32-byte padding string of ISO 32000-1 7.6.3.3,
// Algorithm 2 step (a).
var PadString = [32]byte{
	0x28, 0xBF, 0x4E, 0x5E, 0x4E, 0x75, 0x8A, 0x41, 0x64, 0x00, 0x4E, 0x56, 0xFF, 0xFA, 0x01, 0x08,
	0x2E, 0x2E, 0x00, 0xB6, 0xD0, 0x68, 0x3E, 0x80, 0x2F, 0x0C, 0xA9, 0xFE, 0x64, 0x53, 0x69, 0x7A,
}

// pdfDocSpecial lists the code points of PDFDocEncoding which differ from
// Latin-1 (ISO 32000-1 Annex D, Table D.2): 0x18-0x1F, 0x80-0x9E and 0xA0.
var pdfDocSpecial = map[rune]byte{
	// 0x18..0x1F: spacing accents
	0x02D8: 0x18, // breve
	0x02C7: 0x19, // caron
	0x02C6: 0x1A, // circumflex
	0x02D9: 0x1B, // dotaccent
	0x02DD: 0x1C, // hungarumlaut
	0x02DB: 0x1D, // ogonek
	0x02DA: 0x1E, // ring
	0x02DC: 0x1F, // tilde
	// 0x80..0x9E
	0x2022: 0x80, // bullet
	0x2020: 0x81, // dagger
	0x2021: 0x82, // daggerdbl
	0x2026: 0x83, // ellipsis
	0x2014: 0x84, // emdash
	0x2013: 0x85, // endash
	0x0192: 0x86, // florin
	0x2044: 0x87, // fraction
	0x2039: 0x88, // guilsinglleft
	0x203A: 0x89, // guilsinglright
	0x2212: 0x8A, // minus
	0x2030: 0x8B, // perthousand
	0x201E: 0x8C, // quotedblbase
	0x201C: 0x8D, // quotedblleft
	0x201D: 0x8E, // quotedblright
	0x2018: 0x8F, // quoteleft
	0x2019: 0x90, // quoteright
	0x201A: 0x91, // quotesinglbase
	0x2122: 0x92, // trademark
	0xFB01: 0x93, // fi
	0xFB02: 0x94, // fl
	0x0141: 0x95, // Lslash
	0x0152: 0x96, // OE
	0x0160: 0x97, // Scaron
	0x0178: 0x98, // Ydieresis
	0x017D: 0x99, // Zcaron
	0x0131: 0x9A, // dotlessi
	0x0142: 0x9B, // lslash
	0x0153: 0x9C, // oe
	0x0161: 0x9D, // scaron
	0x017E: 0x9E, // zcaron
	// 0xA0
	0x20AC: 0xA0, // Euro
}

// PDFDocEncode converts text to PDFDocEncoding (ISO 32000-1 Annex D).  It
// reports false if a character has no code: everything outside the table,
// the control characters other than TAB, LF and CR, U+007F, U+009F, U+00A0
// (whose code 0xA0 is the Euro sign) and U+00AD (code 0xAD is undefined).
func PDFDocEncode(s string) ([]byte, bool) {
	out := make([]byte, 0, len(s))
	for len(s) > 0 {
		r, n := utf8.DecodeRuneInString(s)
		if r == utf8.RuneError && n <= 1 {
			return nil, false
		}
		s = s[n:]
		switch {
		case r == '\t' || r == '\n' || r == '\r':
			out = append(out, byte(r))
		case r >= 0x20 && r <= 0x7E:
			out = append(out, byte(r))
		case r >= 0xA1 && r <= 0xFF && r != 0xAD:
			out = append(out, byte(r))
		default:
			b, ok := pdfDocSpecial[r]
			if !ok {
				return nil, false
			}
			out = append(out, b)
		}
	}
	return out, true
}

// PadPassword implements Algorithm 2 step (a): the first 32 bytes of the
// password, padded with the leading bytes of the padding string.
func PadPassword(pw []byte) []byte {
	out := make([]byte, 32)
	n := copy(out, pw)
	copy(out[n:], PadString[:])
	return out
}

// PreparePasswordLegacy returns the form of a password which revisions 2-4
// of the standard security handler feed into their hash: the PDFDocEncoding
// of the text, truncated or padded to exactly 32 bytes.  Two passwords are
// the same password for these revisions iff the results are equal.
func PreparePasswordLegacy(text string) ([]byte, error) {
	b, ok := PDFDocEncode(text)
	if !ok {
		return nil, ErrNotEncodable
	}
	return PadPassword(b), nil
}

// TruncateR6 truncates a UTF-8 password to 127 bytes (Algorithm 2.A (a)).
func TruncateR6(pw []byte) []byte {
	if len(pw) > 127 {
		pw = pw[:127]
	}
	return pw
}

// SASLprep applies the SASLprep profile of stringprep (RFC 4013, with
// normalisation and the bidi check) and returns the UTF-8 form, untruncated.
func SASLprep(text string) ([]byte, error) {
	if !utf8.ValidString(text) {
		return nil, ErrNotEncodable
	}
	p, err := stringprep.SASLprep.Prepare(text)
	if err != nil {
		return nil, ErrNotEncodable
	}
	return []byte(p), nil
}

// PreparePasswordR6 returns the form of a password used by revisions 5 and
// 6: SASLprep, UTF-8, truncated to 127 bytes (Algorithm 2.A step (a)).
func PreparePasswordR6(text string) ([]byte, error) {
	p, err := SASLprep(text)
	if err != nil {
		return nil, err
	}
	return TruncateR6(p), nil
}
