// Package crypt is an implementation of the PDF standard security handler
// written from ISO 32000-1:2008 §7.6 and ISO 32000-2:2020 §7.6 (Algorithms 1,
// 1.A, 2, 2.A, 2.B, 3-7 and 8-13).  It shares no code with seehuhn.de/go/pdf
// and imports only the Go standard library, github.com/xdg-go/stringprep and
// (through it) golang.org/x/text.
//
// Passwords are passed as byte strings "as typed": the PDFDocEncoding of the
// text for revisions 2-4, the SASLprep'ed UTF-8 for revisions 5 and 6.  The
// functions here apply the remaining steps themselves (padding or truncation
// to 32 bytes, truncation to 127 bytes); both steps are idempotent, so the
// output of [PreparePasswordLegacy] / [PreparePasswordR6] may be passed, too.
//
// Points where the text of the standard leaves room, and what is done here:
//
//   - Algorithm 3 step (c) / Algorithm 7 step (a) say "take the output from
//     the previous MD5 hash and pass it as input into a new MD5 hash" without
//     the truncation to the key length which Algorithm 2 step (h) spells out.
//     The two readings differ only for revision 3 with keys shorter than 128
//     bits.  Acrobat, PDFBox and qpdf truncate; pdfium does not.  The writer
//     direction here truncates (the files are then readable by Acrobat);
//     [AuthenticateDetail] tries both and reports which one matched.
//   - Key length: 5 bytes for V 1, Length/8 for V 2 and 3 (default 40 bits),
//     16 bytes for V 4 and 32 bytes for V 5, whatever /Length says.
//   - Revision 5 (the deprecated Adobe extension) is supported: it is
//     revision 6 with a single SHA-256 in place of Algorithm 2.B.
package crypt

import (
	"bytes"
	"crypto/aes"
	"crypto/cipher"
	"crypto/md5"
	"crypto/rc4"
	"crypto/sha256"
	"crypto/sha512"
	"encoding/binary"
	"errors"
	"fmt"
	"io"
)

// EncryptDict holds the entries of an encryption dictionary which the
// standard security handler uses.
type EncryptDict struct {
	Filter string // "Standard"
	V, R   int
	Length int // bits; 0 = absent

	O, U, OE, UE, Perms []byte

	P               int32
	EncryptMetadata bool // the default (entry absent) is true

	StmF, StrF string            // crypt filter names; "" = absent = Identity
	CFM        map[string]string // crypt filter name -> V2 | AESV2 | AESV3 | None | Identity
}

// KeyLen returns the length of the file encryption key in bytes.
func (d *EncryptDict) KeyLen() int {
	switch d.V {
	case 1:
		return 5
	case 2, 3:
		if d.Length == 0 {
			return 5
		}
		return d.Length / 8
	case 4:
		return 16
	case 5:
		return 32
	}
	return 0
}

func (d *EncryptDict) check() error {
	if d.Filter != "Standard" {
		return fmt.Errorf("crypt: unsupported security handler %q", d.Filter)
	}
	ok := false
	switch d.R {
	case 2:
		ok = d.V == 1
	case 3:
		ok = d.V >= 1 && d.V <= 3
	case 4:
		ok = d.V == 4
	case 5, 6:
		ok = d.V == 5
	}
	if !ok {
		return fmt.Errorf("crypt: unsupported combination V=%d R=%d", d.V, d.R)
	}
	n := d.KeyLen()
	if n < 5 || n > 32 || (d.R <= 4 && n > 16) {
		return fmt.Errorf("crypt: bad key length %d bits", d.Length)
	}
	if d.R <= 4 {
		if len(d.O) != 32 || len(d.U) != 32 {
			return fmt.Errorf("crypt: O and U must be 32 bytes long, have %d and %d", len(d.O), len(d.U))
		}
		return nil
	}
	if len(d.O) != 48 || len(d.U) != 48 {
		return fmt.Errorf("crypt: O and U must be 48 bytes long, have %d and %d", len(d.O), len(d.U))
	}
	if len(d.OE) != 32 || len(d.UE) != 32 {
		return fmt.Errorf("crypt: OE and UE must be 32 bytes long, have %d and %d", len(d.OE), len(d.UE))
	}
	if len(d.Perms) != 16 {
		return fmt.Errorf("crypt: Perms must be 16 bytes long, has %d", len(d.Perms))
	}
	return nil
}

// ---------------------------------------------------------------------------
// revisions 2-4

func md5sum(parts ...[]byte) []byte {
	h := md5.New()
	for _, p := range parts {
		h.Write(p)
	}
	return h.Sum(nil)
}

func rc4Crypt(key, data []byte) []byte {
	c, err := rc4.NewCipher(key)
	if err != nil {
		panic(err)
	}
	out := make([]byte, len(data))
	c.XORKeyStream(out, data)
	return out
}

func xorKey(key []byte, x byte) []byte {
	out := make([]byte, len(key))
	for i, b := range key {
		out[i] = b ^ x
	}
	return out
}

// fileKeyLegacy is Algorithm 2.
func fileKeyLegacy(d *EncryptDict, id0, userPw []byte) []byte {
	n := d.KeyLen()
	var p [4]byte
	binary.LittleEndian.PutUint32(p[:], uint32(d.P))
	parts := [][]byte{PadPassword(userPw), d.O, p[:], id0}
	if d.R >= 4 && !d.EncryptMetadata {
		parts = append(parts, []byte{0xFF, 0xFF, 0xFF, 0xFF})
	}
	sum := md5sum(parts...)
	if d.R >= 3 {
		for i := 0; i < 50; i++ {
			sum = md5sum(sum[:n])
		}
	}
	return sum[:n]
}

// ownerRC4Key is Algorithm 3 steps (a)-(d).  With literal set, step (c) is
// read as written (the whole 16-byte digest is hashed again); otherwise only
// the first n bytes are, as in Algorithm 2 step (h).
func ownerRC4Key(d *EncryptDict, ownerPw []byte, literal bool) []byte {
	n := d.KeyLen()
	sum := md5sum(PadPassword(ownerPw))
	if d.R >= 3 {
		for i := 0; i < 50; i++ {
			if literal {
				sum = md5sum(sum)
			} else {
				sum = md5sum(sum[:n])
			}
		}
	}
	return sum[:n]
}

// computeO is Algorithm 3 steps (e)-(h).
func computeO(d *EncryptDict, rc4Key, userPw []byte) []byte {
	out := rc4Crypt(rc4Key, PadPassword(userPw))
	if d.R >= 3 {
		for i := 1; i <= 19; i++ {
			out = rc4Crypt(xorKey(rc4Key, byte(i)), out)
		}
	}
	return out
}

// computeU is Algorithm 4 (revision 2) and Algorithm 5 (revisions 3, 4).  For
// revisions 3 and 4 only the first 16 bytes are significant.
func computeU(d *EncryptDict, id0, fileKey []byte) []byte {
	if d.R == 2 {
		return rc4Crypt(fileKey, PadString[:])
	}
	out := rc4Crypt(fileKey, md5sum(PadString[:], id0))
	for i := 1; i <= 19; i++ {
		out = rc4Crypt(xorKey(fileKey, byte(i)), out)
	}
	return out
}

// authUserLegacy is Algorithm 6.
func authUserLegacy(d *EncryptDict, id0, userPw []byte) ([]byte, bool) {
	key := fileKeyLegacy(d, id0, userPw)
	u := computeU(d, id0, key)
	if d.R == 2 {
		return key, bytes.Equal(u, d.U)
	}
	return key, bytes.Equal(u[:16], d.U[:16])
}

// authOwnerLegacy is Algorithm 7.
func authOwnerLegacy(d *EncryptDict, id0, ownerPw []byte, literal bool) ([]byte, bool) {
	rc4Key := ownerRC4Key(d, ownerPw, literal)
	var userPw []byte
	if d.R == 2 {
		userPw = rc4Crypt(rc4Key, d.O)
	} else {
		userPw = d.O
		for i := 19; i >= 0; i-- {
			userPw = rc4Crypt(xorKey(rc4Key, byte(i)), userPw)
		}
	}
	return authUserLegacy(d, id0, userPw)
}

// ---------------------------------------------------------------------------
// revisions 5 and 6

// Hash2B is Algorithm 2.B.  udata is the 48-byte U string when the owner
// password is hashed and nil otherwise.
func Hash2B(pw, salt, udata []byte) []byte {
	first := sha256.Sum256(concat(pw, salt, udata))
	k := first[:]
	rounds := 0
	for {
		// (a)
		unit := concat(pw, k, udata)
		k1 := bytes.Repeat(unit, 64)
		// (b)
		blk, err := aes.NewCipher(k[:16])
		if err != nil {
			panic(err)
		}
		e := make([]byte, len(k1))
		cipher.NewCBCEncrypter(blk, k[16:32]).CryptBlocks(e, k1)
		// (c) a big-endian number modulo 3: 256 = 1 (mod 3), so the
		// remainder is that of the sum of the bytes
		sum := 0
		for _, b := range e[:16] {
			sum += int(b)
		}
		// (d)
		switch sum % 3 {
		case 0:
			h := sha256.Sum256(e)
			k = h[:]
		case 1:
			h := sha512.Sum384(e)
			k = h[:]
		default:
			h := sha512.Sum512(e)
			k = h[:]
		}
		rounds++
		// (e), (f): rounds 0..63 are always done; after that the round which
		// would come next has the number `rounds`, and it is done iff the
		// last byte of E is greater than that number minus 32
		if rounds >= 64 && int(e[len(e)-1]) <= rounds-32 {
			break
		}
	}
	return k[:32]
}

func concat(parts ...[]byte) []byte {
	var out []byte
	for _, p := range parts {
		out = append(out, p...)
	}
	return out
}

func hashR56(d *EncryptDict, pw, salt, udata []byte) []byte {
	if d.R == 5 {
		h := sha256.Sum256(concat(pw, salt, udata))
		return h[:]
	}
	return Hash2B(pw, salt, udata)
}

var zeroIV = make([]byte, 16)

func aesCBCNoPad(key, data []byte, encrypt bool) []byte {
	blk, err := aes.NewCipher(key)
	if err != nil {
		panic(err)
	}
	out := make([]byte, len(data))
	if encrypt {
		cipher.NewCBCEncrypter(blk, zeroIV).CryptBlocks(out, data)
	} else {
		cipher.NewCBCDecrypter(blk, zeroIV).CryptBlocks(out, data)
	}
	return out
}

// authR56 is Algorithm 2.A steps (b)-(e) (Algorithms 11 and 12).
func authR56(d *EncryptDict, pw []byte) (key []byte, owner, ok bool) {
	pw = TruncateR6(pw)
	u48 := d.U[:48]
	if bytes.Equal(hashR56(d, pw, d.O[32:40], u48), d.O[:32]) {
		ik := hashR56(d, pw, d.O[40:48], u48)
		return aesCBCNoPad(ik, d.OE, false), true, true
	}
	if bytes.Equal(hashR56(d, pw, d.U[32:40], nil), d.U[:32]) {
		ik := hashR56(d, pw, d.U[40:48], nil)
		return aesCBCNoPad(ik, d.UE, false), false, true
	}
	return nil, false, false
}

// PermsPlain decrypts the Perms string (Algorithm 13 step (a)).
func PermsPlain(d *EncryptDict, fileKey []byte) ([]byte, error) {
	if len(d.Perms) != 16 {
		return nil, errors.New("crypt: Perms must be 16 bytes long")
	}
	blk, err := aes.NewCipher(fileKey)
	if err != nil {
		return nil, err
	}
	out := make([]byte, 16)
	blk.Decrypt(out, d.Perms)
	return out, nil
}

// ValidatePerms is Algorithm 13, together with the check of byte 8 which
// Algorithm 2.A step (f) describes: bytes 9-11 of the decrypted Perms string
// are "adb", bytes 0-3 are P (little-endian) and byte 8 is 'T' or 'F'
// according to EncryptMetadata.  For revisions below 5 it returns nil.
func ValidatePerms(d *EncryptDict, fileKey []byte) error {
	if d.R < 5 {
		return nil
	}
	p, err := PermsPlain(d, fileKey)
	if err != nil {
		return err
	}
	if string(p[9:12]) != "adb" {
		return fmt.Errorf("crypt: Perms: bytes 9-11 are % x, not \"adb\"", p[9:12])
	}
	if got := int32(binary.LittleEndian.Uint32(p[:4])); got != d.P {
		return fmt.Errorf("crypt: Perms: permissions %d differ from P = %d", got, d.P)
	}
	want := byte('T')
	if !d.EncryptMetadata {
		want = 'F'
	}
	if p[8] != want {
		return fmt.Errorf("crypt: Perms: byte 8 is %q, EncryptMetadata is %v", p[8], d.EncryptMetadata)
	}
	return nil
}

// ---------------------------------------------------------------------------
// authentication

// Detail says how a password was accepted.
type Detail struct {
	IsOwner bool
	// OwnerKeyLiteral is set if the owner password was only accepted with
	// the literal reading of Algorithm 3 step (c) (no truncation of the
	// intermediate digests).  Only possible for revision 3 with keys
	// shorter than 128 bits.
	OwnerKeyLiteral bool
}

// AuthenticateDetail checks a password (owner first, then user) and returns
// the file encryption key.  For revisions 5 and 6 the Perms string is not
// examined; use [ValidatePerms].
func AuthenticateDetail(d *EncryptDict, id0 []byte, password []byte) (fileKey []byte, det Detail, err error) {
	if err := d.check(); err != nil {
		return nil, det, err
	}
	if d.R >= 5 {
		key, owner, ok := authR56(d, password)
		if !ok {
			return nil, det, ErrWrongPassword
		}
		det.IsOwner = owner
		return key, det, nil
	}
	if key, ok := authOwnerLegacy(d, id0, password, false); ok {
		det.IsOwner = true
		return key, det, nil
	}
	if d.R >= 3 && d.KeyLen() < 16 {
		if key, ok := authOwnerLegacy(d, id0, password, true); ok {
			det.IsOwner = true
			det.OwnerKeyLiteral = true
			return key, det, nil
		}
	}
	if key, ok := authUserLegacy(d, id0, password); ok {
		return key, det, nil
	}
	return nil, det, ErrWrongPassword
}

// ErrWrongPassword is returned by AuthenticateDetail for a password which is
// neither the user nor the owner password.
var ErrWrongPassword = errors.New("crypt: wrong password")

// Authenticate checks a password against the encryption dictionary and the
// first element of the file identifier.  The owner password is tried first.
func Authenticate(d *EncryptDict, id0 []byte, password []byte) (fileKey []byte, isOwner bool, ok bool) {
	key, det, err := AuthenticateDetail(d, id0, password)
	if err != nil {
		return nil, false, false
	}
	return key, det.IsOwner, true
}

// ---------------------------------------------------------------------------
// strings and streams

// ObjectKey is Algorithm 1 steps (a)-(d): the key for the strings and the
// stream of one indirect object.  For V 5 (Algorithm 1.A) it is the file key.
func ObjectKey(d *EncryptDict, fileKey []byte, num uint32, gen uint16, useAES bool) []byte {
	if d.V >= 5 {
		return fileKey
	}
	ext := []byte{byte(num), byte(num >> 8), byte(num >> 16), byte(gen), byte(gen >> 8)}
	var sum []byte
	if useAES {
		sum = md5sum(fileKey, ext, []byte("sAlT"))
	} else {
		sum = md5sum(fileKey, ext)
	}
	n := len(fileKey) + 5
	if n > 16 {
		n = 16
	}
	return sum[:n]
}

// method returns "RC4", "AES" or "" (identity) for a crypt filter name.
func (d *EncryptDict) method(name string) (string, error) {
	if d.V < 4 {
		return "RC4", nil
	}
	if name == "" || name == "Identity" {
		return "", nil
	}
	cfm, ok := d.CFM[name]
	if !ok {
		return "", fmt.Errorf("crypt: crypt filter %q is not defined", name)
	}
	switch cfm {
	case "Identity":
		return "", nil
	case "V2":
		return "RC4", nil
	case "AESV2":
		if d.V != 4 {
			return "", fmt.Errorf("crypt: AESV2 with V=%d", d.V)
		}
		return "AES", nil
	case "AESV3":
		if d.V != 5 {
			return "", fmt.Errorf("crypt: AESV3 with V=%d", d.V)
		}
		return "AES", nil
	}
	return "", fmt.Errorf("crypt: crypt filter method %q is not supported", cfm)
}

var (
	// ErrCiphertext reports AES data which is not IV + whole blocks.
	ErrCiphertext = errors.New("crypt: AES data is not an IV followed by whole blocks")
	// ErrPadding reports bad PKCS#7 padding.
	ErrPadding = errors.New("crypt: bad padding")
)

func decrypt(d *EncryptDict, filter string, fileKey []byte, num uint32, gen uint16, data []byte) ([]byte, error) {
	m, err := d.method(filter)
	if err != nil {
		return nil, err
	}
	switch m {
	case "":
		return append([]byte{}, data...), nil
	case "RC4":
		return rc4Crypt(ObjectKey(d, fileKey, num, gen, false), data), nil
	}
	if len(data) < 32 || len(data)%16 != 0 {
		return nil, ErrCiphertext
	}
	blk, err := aes.NewCipher(ObjectKey(d, fileKey, num, gen, true))
	if err != nil {
		return nil, err
	}
	out := make([]byte, len(data)-16)
	cipher.NewCBCDecrypter(blk, data[:16]).CryptBlocks(out, data[16:])
	pad := int(out[len(out)-1])
	if pad < 1 || pad > 16 {
		return nil, ErrPadding
	}
	for _, b := range out[len(out)-pad:] {
		if int(b) != pad {
			return nil, ErrPadding
		}
	}
	return out[:len(out)-pad], nil
}

func encrypt(d *EncryptDict, filter string, fileKey []byte, num uint32, gen uint16, data []byte, rnd io.Reader) ([]byte, error) {
	m, err := d.method(filter)
	if err != nil {
		return nil, err
	}
	switch m {
	case "":
		return append([]byte{}, data...), nil
	case "RC4":
		return rc4Crypt(ObjectKey(d, fileKey, num, gen, false), data), nil
	}
	blk, err := aes.NewCipher(ObjectKey(d, fileKey, num, gen, true))
	if err != nil {
		return nil, err
	}
	pad := 16 - len(data)%16
	plain := append(append([]byte{}, data...), bytes.Repeat([]byte{byte(pad)}, pad)...)
	out := make([]byte, 16+len(plain))
	if _, err := io.ReadFull(rnd, out[:16]); err != nil {
		return nil, err
	}
	cipher.NewCBCEncrypter(blk, out[:16]).CryptBlocks(out[16:], plain)
	return out, nil
}

// DecryptString decrypts a string which is part of the indirect object
// (num, gen), using the crypt filter StrF.  Strings inside object streams,
// in the encryption dictionary, the trailer and the file identifier are not
// encrypted; leaving those alone is the caller's business.
func DecryptString(d *EncryptDict, fileKey []byte, num uint32, gen uint16, data []byte) ([]byte, error) {
	return decrypt(d, d.StrF, fileKey, num, gen, data)
}

// DecryptStream decrypts the data of the stream object (num, gen), using the
// crypt filter StmF.  The exceptions are the caller's business: cross-
// reference streams are never encrypted, a stream with an explicit Crypt
// filter uses that one, and with EncryptMetadata false the document-level
// metadata stream is left alone.
func DecryptStream(d *EncryptDict, fileKey []byte, num uint32, gen uint16, data []byte) ([]byte, error) {
	return decrypt(d, d.StmF, fileKey, num, gen, data)
}

// EncryptString is the inverse of DecryptString; the AES initialisation
// vector is read from rnd.
func EncryptString(d *EncryptDict, fileKey []byte, num uint32, gen uint16, data []byte, rnd io.Reader) ([]byte, error) {
	return encrypt(d, d.StrF, fileKey, num, gen, data, rnd)
}

// EncryptStream is the inverse of DecryptStream; the AES initialisation
// vector is read from rnd.
func EncryptStream(d *EncryptDict, fileKey []byte, num uint32, gen uint16, data []byte, rnd io.Reader) ([]byte, error) {
	return encrypt(d, d.StmF, fileKey, num, gen, data, rnd)
}

// ---------------------------------------------------------------------------
// writer direction

// NewEncryptDict creates the encryption dictionary and the file encryption
// key for a new document.
//
//	R 2: V 1, RC4, keyBits must be 40
//	R 3: V 1 if keyBits is 40, else V 2 with Length = keyBits (48..128), RC4
//	R 4: V 4, keyBits must be 128, crypt filter StdCF with AESV2
//	     (set CFM["StdCF"] = "V2" afterwards for RC4; the key does not change)
//	R 5, 6: V 5, keyBits must be 256, crypt filter StdCF with AESV3
//
// An empty owner password is replaced by the user password (Algorithm 3 (a)).
// P is stored as given; setting the reserved bits is the caller's business.
// Salts, the file key of R 5/6 and the random part of Perms come from rnd.
func NewEncryptDict(R int, keyBits int, userPw, ownerPw []byte, P int32, id0 []byte, encryptMetadata bool, rnd io.Reader) (*EncryptDict, []byte, error) {
	d := &EncryptDict{Filter: "Standard", R: R, P: P, EncryptMetadata: encryptMetadata}
	if len(ownerPw) == 0 {
		ownerPw = userPw
	}
	bad := func() (*EncryptDict, []byte, error) {
		return nil, nil, fmt.Errorf("crypt: revision %d cannot have %d-bit keys", R, keyBits)
	}
	switch R {
	case 2:
		if keyBits != 40 {
			return bad()
		}
		d.V = 1
	case 3:
		if keyBits < 40 || keyBits > 128 || keyBits%8 != 0 {
			return bad()
		}
		if keyBits == 40 {
			d.V = 1
		} else {
			d.V = 2
			d.Length = keyBits
		}
	case 4:
		if keyBits != 128 {
			return bad()
		}
		d.V = 4
		d.Length = 128
		d.StmF, d.StrF = "StdCF", "StdCF"
		d.CFM = map[string]string{"StdCF": "AESV2"}
	case 5, 6:
		if keyBits != 256 {
			return bad()
		}
		d.V = 5
		d.Length = 256
		d.StmF, d.StrF = "StdCF", "StdCF"
		d.CFM = map[string]string{"StdCF": "AESV3"}
	default:
		return nil, nil, fmt.Errorf("crypt: unsupported revision %d", R)
	}

	if R <= 4 {
		d.O = computeO(d, ownerRC4Key(d, ownerPw, false), userPw)
		key := fileKeyLegacy(d, id0, userPw)
		u := computeU(d, id0, key)
		if R >= 3 {
			// Algorithm 5 (f): 16 bytes of arbitrary padding
			u = append(u[:16:16], make([]byte, 16)...)
		}
		d.U = u
		return d, key, nil
	}

	userPw, ownerPw = TruncateR6(userPw), TruncateR6(ownerPw)
	buf := make([]byte, 32+16+16+4)
	if _, err := io.ReadFull(rnd, buf); err != nil {
		return nil, nil, err
	}
	key, us, os, tail := buf[:32], buf[32:48], buf[48:64], buf[64:]
	// Algorithm 8
	d.U = concat(hashR56(d, userPw, us[:8], nil), us)
	d.UE = aesCBCNoPad(hashR56(d, userPw, us[8:], nil), key, true)
	// Algorithm 9
	d.O = concat(hashR56(d, ownerPw, os[:8], d.U), os)
	d.OE = aesCBCNoPad(hashR56(d, ownerPw, os[8:], d.U), key, true)
	// Algorithm 10
	perms := make([]byte, 16)
	binary.LittleEndian.PutUint32(perms, uint32(P))
	copy(perms[4:8], []byte{0xFF, 0xFF, 0xFF, 0xFF})
	perms[8] = 'T'
	if !encryptMetadata {
		perms[8] = 'F'
	}
	copy(perms[9:12], "adb")
	copy(perms[12:], tail)
	blk, err := aes.NewCipher(key)
	if err != nil {
		return nil, nil, err
	}
	d.Perms = make([]byte, 16)
	blk.Encrypt(d.Perms, perms)
	return d, append([]byte{}, key...), nil
}
