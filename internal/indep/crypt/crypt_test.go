package crypt

import (
	"bytes"
	"crypto/sha256"
	"encoding/hex"
	"fmt"
	"testing"
)

// detRand is a deterministic byte source (SHA-256 in counter mode).
type detRand struct {
	seed string
	ctr  int
	buf  []byte
}

func (r *detRand) Read(p []byte) (int, error) {
	for len(r.buf) < len(p) {
		h := sha256.Sum256([]byte(fmt.Sprintf("%s/%d", r.seed, r.ctr)))
		r.ctr++
		r.buf = append(r.buf, h[:]...)
	}
	n := copy(p, r.buf)
	r.buf = r.buf[n:]
	return n, nil
}

type config struct {
	name    string
	R, bits int
	cfm     string // override for StdCF
}

var configs = []config{
	{"R2-40", 2, 40, ""},
	{"R3-40", 3, 40, ""},
	{"R3-64", 3, 64, ""},
	{"R3-128", 3, 128, ""},
	{"R4-AESV2", 4, 128, ""},
	{"R4-V2", 4, 128, "V2"},
	{"R5", 5, 256, ""},
	{"R6", 6, 256, ""},
}

func passwords(R int) [][2]string {
	long := string(bytes.Repeat([]byte("0123456789"), 20)) // 200 bytes
	return [][2]string{
		{"user", "owner"},
		{"", "owner"},
		{"user", ""},
		{"same", "same"},
		{long[:31], long[:32]},
		{long[:33], long[1:34]},
		{long[:127], long[:128]},
		{long[:200], long[1:200]},
	}
}

// TestTriangle: NewEncryptDict -> Authenticate with both passwords gives the
// same key; strings and streams survive encrypt -> decrypt; wrong passwords
// fail; the Perms string validates.
func TestTriangle(t *testing.T) {
	id0 := []byte("0123456789abcdef")
	for _, cfg := range configs {
		for _, em := range []bool{true, false} {
			for pi, pw := range passwords(cfg.R) {
				name := fmt.Sprintf("%s/em=%v/pw%d", cfg.name, em, pi)
				rnd := &detRand{seed: name}
				user, owner := []byte(pw[0]), []byte(pw[1])
				P := int32(-3392 + 4*pi)
				d, key, err := NewEncryptDict(cfg.R, cfg.bits, user, owner, P, id0, em, rnd)
				if err != nil {
					t.Fatalf("%s: %v", name, err)
				}
				if cfg.cfm != "" {
					d.CFM["StdCF"] = cfg.cfm
				}
				if len(key)*8 != cfg.bits {
					t.Fatalf("%s: key has %d bits", name, len(key)*8)
				}

				k1, isOwner, ok := Authenticate(d, id0, user)
				if !ok || !bytes.Equal(k1, key) {
					t.Fatalf("%s: user password: ok=%v key %x want %x", name, ok, k1, key)
				}
				limit := 32
				if cfg.R >= 5 {
					limit = 127
				}
				effOwner := owner
				if len(effOwner) == 0 {
					effOwner = user
				}
				same := bytes.Equal(clip(user, limit), clip(effOwner, limit))
				if isOwner != same {
					t.Fatalf("%s: user password: isOwner=%v, passwords same=%v", name, isOwner, same)
				}
				k2, isOwner, ok := Authenticate(d, id0, effOwner)
				if !ok || !isOwner || !bytes.Equal(k2, key) {
					t.Fatalf("%s: owner password: ok=%v owner=%v key %x want %x", name, ok, isOwner, k2, key)
				}
				if err := ValidatePerms(d, key); err != nil {
					t.Fatalf("%s: %v", name, err)
				}
				if cfg.R >= 5 {
					d2 := *d
					d2.P ^= 4
					if ValidatePerms(&d2, key) == nil {
						t.Fatalf("%s: changed P not noticed", name)
					}
					d2 = *d
					d2.EncryptMetadata = !d2.EncryptMetadata
					if ValidatePerms(&d2, key) == nil {
						t.Fatalf("%s: changed EncryptMetadata not noticed", name)
					}
					pp, _ := PermsPlain(d, key)
					if !bytes.Equal(pp[4:8], []byte{255, 255, 255, 255}) {
						t.Fatalf("%s: Perms bytes 4-7 = % x", name, pp[4:8])
					}
				}

				// wrong passwords
				for _, w := range []string{"wrong", pw[0] + "x", "x" + pw[1]} {
					wb := []byte(w)
					if bytes.Equal(clip(wb, limit), clip(user, limit)) || bytes.Equal(clip(wb, limit), clip(effOwner, limit)) {
						continue
					}
					if _, _, ok := Authenticate(d, id0, wb); ok {
						t.Fatalf("%s: wrong password %q accepted", name, w)
					}
				}
				if len(user) > 0 && len(owner) > 0 {
					if _, _, ok := Authenticate(d, id0, nil); ok {
						t.Fatalf("%s: empty password accepted", name)
					}
				}
				// a different ID or P changes the key (R <= 4)
				if cfg.R <= 4 {
					d2 := *d
					d2.P ^= 4
					if k, _, ok := Authenticate(&d2, id0, user); ok && bytes.Equal(k, key) {
						t.Fatalf("%s: key does not depend on P", name)
					}
					if k, _, ok := Authenticate(d, []byte("another id"), user); ok && bytes.Equal(k, key) {
						t.Fatalf("%s: key does not depend on the ID", name)
					}
					if cfg.R == 4 {
						d2 = *d
						d2.EncryptMetadata = !d2.EncryptMetadata
						if k, _, ok := Authenticate(&d2, id0, user); ok && bytes.Equal(k, key) {
							t.Fatalf("%s: key does not depend on EncryptMetadata", name)
						}
					}
				}

				// data
				for _, n := range []int{0, 1, 15, 16, 17, 31, 32, 33, 1000} {
					data := make([]byte, n)
					(&detRand{seed: "data"}).Read(data)
					for _, ref := range [][2]uint32{{1, 0}, {2, 0}, {1, 1}, {0xFFFFFF, 0xFFFF}, {0x010000, 0x0100}} {
						num, gen := ref[0], uint16(ref[1])
						c1, err := EncryptString(d, key, num, gen, data, rnd)
						if err != nil {
							t.Fatal(err)
						}
						p1, err := DecryptString(d, key, num, gen, c1)
						if err != nil || !bytes.Equal(p1, data) {
							t.Fatalf("%s: string round trip n=%d: %v", name, n, err)
						}
						c2, err := EncryptStream(d, key, num, gen, data, rnd)
						if err != nil {
							t.Fatal(err)
						}
						p2, err := DecryptStream(d, key, num, gen, c2)
						if err != nil || !bytes.Equal(p2, data) {
							t.Fatalf("%s: stream round trip n=%d: %v", name, n, err)
						}
						isAES := d.V >= 4 && d.CFM["StdCF"] != "V2"
						if isAES {
							if len(c1) != 16+(n/16+1)*16 {
								t.Fatalf("%s: AES length %d for %d bytes", name, len(c1), n)
							}
							if bytes.Equal(c1, c2) {
								t.Fatalf("%s: IV reused", name)
							}
						} else if len(c1) != n {
							t.Fatalf("%s: RC4 length", name)
						}
						// other object => other ciphertext / garbage (R <= 4)
						if d.V < 5 && n >= 16 {
							p3, err := DecryptString(d, key, num+1, gen, c1)
							if err == nil && bytes.Equal(p3, data) {
								t.Fatalf("%s: key does not depend on the object number", name)
							}
							p3, err = DecryptString(d, key, num, gen+1, c1)
							if err == nil && bytes.Equal(p3, data) {
								t.Fatalf("%s: key does not depend on the generation", name)
							}
						}
					}
				}
			}
		}
	}
}

func clip(b []byte, n int) []byte {
	if len(b) > n {
		return b[:n]
	}
	return b
}

// TestObjectKey pins Algorithm 1 down byte by byte.
func TestObjectKey(t *testing.T) {
	fileKey := []byte{1, 2, 3, 4, 5}
	d := &EncryptDict{V: 1, R: 2}
	got := ObjectKey(d, fileKey, 0x030201, 0x0504, false)
	want := md5sum([]byte{1, 2, 3, 4, 5, 0x01, 0x02, 0x03, 0x04, 0x05})[:10]
	if !bytes.Equal(got, want) {
		t.Errorf("RC4-40: %x want %x", got, want)
	}
	fileKey = bytes.Repeat([]byte{7}, 16)
	d = &EncryptDict{V: 4, R: 4}
	got = ObjectKey(d, fileKey, 0xAB030201, 0x0504, true) // only the low 3 bytes count
	want = md5sum(fileKey, []byte{0x01, 0x02, 0x03, 0x04, 0x05, 0x73, 0x41, 0x6C, 0x54})
	if !bytes.Equal(got, want) {
		t.Errorf("AES-128: %x want %x", got, want)
	}
	fileKey = bytes.Repeat([]byte{9}, 32)
	d = &EncryptDict{V: 5, R: 6}
	if got = ObjectKey(d, fileKey, 5, 6, true); !bytes.Equal(got, fileKey) {
		t.Errorf("AES-256: %x", got)
	}
}

// TestOwnerKeyReadings: a revision 3 / 40-bit dictionary whose O entry was
// made with the literal reading of Algorithm 3 (c) is accepted and flagged.
func TestOwnerKeyReadings(t *testing.T) {
	id0 := []byte("id")
	d, key, err := NewEncryptDict(3, 40, []byte("u"), []byte("o"), -44, id0, true, nil)
	if err != nil {
		t.Fatal(err)
	}
	_, det, err := AuthenticateDetail(d, id0, []byte("o"))
	if err != nil || !det.IsOwner || det.OwnerKeyLiteral {
		t.Fatalf("truncating reading: %+v %v", det, err)
	}
	// same document, O made with the literal reading; U and the key depend
	// on O, so redo them
	d.O = computeO(d, ownerRC4Key(d, []byte("o"), true), []byte("u"))
	key2 := fileKeyLegacy(d, id0, []byte("u"))
	d.U = append(computeU(d, id0, key2), make([]byte, 16)...)
	if bytes.Equal(key, key2) {
		t.Fatal("the readings do not differ")
	}
	k, det, err := AuthenticateDetail(d, id0, []byte("o"))
	if err != nil || !det.IsOwner || !det.OwnerKeyLiteral || !bytes.Equal(k, key2) {
		t.Fatalf("literal reading: %+v %v", det, err)
	}
	// for 128-bit keys the readings coincide
	d128, _, _ := NewEncryptDict(3, 128, []byte("u"), []byte("o"), -44, id0, true, nil)
	if !bytes.Equal(ownerRC4Key(d128, []byte("o"), true), ownerRC4Key(d128, []byte("o"), false)) {
		t.Fatal("128-bit: readings differ")
	}
}

// TestVectorFromGoPDFSuite: the one known-answer vector in go-pdf's own
// crypto_test.go (TestComputeOU; provenance not stated there): R 4, 128 bit,
// user = owner = "test", P = -4.
func TestVectorFromGoPDFSuite(t *testing.T) {
	id0, _ := hex.DecodeString("acac29b4192fd923c24fe6042479b2a9")
	d, _, err := NewEncryptDict(4, 128, []byte("test"), []byte("test"), -4, id0, true, nil)
	if err != nil {
		t.Fatal(err)
	}
	if got := hex.EncodeToString(d.O); got != "badad1e86442699427116d3e5d5271bc80a27814fc5e80f815efeef839354c5f" {
		t.Errorf("O = %s", got)
	}
	if got := hex.EncodeToString(d.U[:16]); got != "a5b5fc1fcc399c6845fedcdfac82027c" {
		t.Errorf("U = %s", got)
	}
}

func TestHash2B(t *testing.T) {
	a := Hash2B([]byte("pw"), []byte("12345678"), nil)
	b := Hash2B([]byte("pw"), []byte("12345678"), nil)
	c := Hash2B([]byte("pw"), []byte("12345679"), nil)
	u := bytes.Repeat([]byte{1}, 48)
	e := Hash2B([]byte("pw"), []byte("12345678"), u)
	if len(a) != 32 || !bytes.Equal(a, b) || bytes.Equal(a, c) || bytes.Equal(a, e) {
		t.Fatal("Hash2B")
	}
	// empty password: K1 is 64 * 32.. bytes, still whole AES blocks
	if len(Hash2B(nil, []byte("12345678"), nil)) != 32 {
		t.Fatal("empty password")
	}
}

func TestPDFDocEncoding(t *testing.T) {
	// every code has at most one character, every character one code
	seen := map[byte]rune{}
	for r, b := range pdfDocSpecial {
		if old, dup := seen[b]; dup {
			t.Errorf("code %#x for both %U and %U", b, old, r)
		}
		seen[b] = r
		if !(b >= 0x18 && b <= 0x1F || b >= 0x80 && b <= 0x9E || b == 0xA0) {
			t.Errorf("code %#x out of place", b)
		}
	}
	if len(seen) != 8+31+1 {
		t.Errorf("%d special codes", len(seen))
	}
	for _, r := range []rune{0, 1, 8, 0x0B, 0x0C, 0x0E, 0x17, 0x7F, 0x80, 0x9F, 0xA0, 0xAD, 0x100, 0x4E2D, 0xFFFD} {
		if _, ok := PDFDocEncode(string(r)); ok {
			t.Errorf("%U is encodable", r)
		}
	}
	if _, ok := PDFDocEncode("a\xffb"); ok {
		t.Error("invalid UTF-8 is encodable")
	}
	got, ok := PDFDocEncode("A\u00E9\u20AC\u2022\t\u00FF\u00A1")
	if !ok || !bytes.Equal(got, []byte{'A', 0xE9, 0xA0, 0x80, 9, 0xFF, 0xA1}) {
		t.Errorf("% x %v", got, ok)
	}
	p, err := PreparePasswordLegacy("")
	if err != nil || !bytes.Equal(p, PadString[:]) {
		t.Error("empty password")
	}
	p, _ = PreparePasswordLegacy("ab")
	if !bytes.Equal(p, append([]byte("ab"), PadString[:30]...)) {
		t.Error("short password")
	}
	long := "0123456789012345678901234567890123456789"
	p, _ = PreparePasswordLegacy(long)
	if string(p) != long[:32] {
		t.Error("long password")
	}
	// 31 bytes + first pad byte is the same password as the 31 bytes
	p1, _ := PreparePasswordLegacy(long[:31])
	p2, _ := PreparePasswordLegacy(long[:31] + "(")
	if !bytes.Equal(p1, p2) {
		t.Error("pad extension")
	}
}

// TestSASLprep uses the examples of RFC 4013 section 3 and a few facts from
// RFC 3454 (tables B.1, C.1.2, C.2.1, C.3, C.8) and Unicode 3.2 NFKC.
func TestSASLprep(t *testing.T) {
	good := [][2]string{
		{"I\u00ADX", "IX"},  // RFC 4013, example 1
		{"user", "user"},    // example 2
		{"USER", "USER"},    // example 3
		{"\u00AA", "a"},     // example 4
		{"\u2168", "IX"},    // example 5
		{"a\u00A0b", "a b"}, // C.1.2 -> space
		{"a\u2003b", "a b"},
		{"a\u3000b", "a b"},
		{"\uFB01", "fi"},     // NFKC
		{"\u212B", "\u00C5"}, // ANGSTROM SIGN
		{"e\u0301", "\u00E9"},
		{"\u2460", "1"},
		{"\uFF76", "\u30AB"}, // halfwidth katakana
		{"\u00B2", "2"},
		{"\u4E2D\u6587", "\u4E2D\u6587"},
		{"a\u200Db", "ab"}, // B.1: ZWJ maps to nothing
		{"\u00AD", ""},
	}
	for _, c := range good {
		got, err := PreparePasswordR6(c[0])
		if err != nil || string(got) != c[1] {
			t.Errorf("%+q: %+q, %v; want %+q", c[0], got, err, c[1])
		}
	}
	bad := []string{
		"\u0007",         // example 6: C.2.1
		"\u0627\u0031",   // example 7: bidi
		"a\u200Eb",       // C.8
		"\uE000",         // C.3
		"a\uFFFDb",       // C.6
		"\x00", "a\x7Fb", // C.2.1
		"\u0080", // C.2.2
		"a\xffb", // not UTF-8
	}
	for _, in := range bad {
		if got, err := PreparePasswordR6(in); err == nil {
			t.Errorf("%+q accepted as %+q", in, got)
		}
	}
	long := string(bytes.Repeat([]byte("x"), 126)) + "\u00E9\u00E9"
	got, _ := PreparePasswordR6(long)
	if len(got) != 127 || got[126] != 0xC3 {
		t.Errorf("truncation: %d bytes", len(got))
	}
}
