package model

import (
	"testing"

	"seehuhn.de/go/pdf/verif/internal/indep/serial"
	"seehuhn.de/go/pdf/verif/internal/indep/syntax"
)

func TestApply(t *testing.T) {
	revs := []serial.Revision{
		{Ops: map[uint32]serial.Op{
			1: {Value: syntax.I(10)},
			2: {Value: syntax.I(20)},
			3: {Value: syntax.D(), Stream: &serial.StreamSpec{Data: []byte("abc"), LenMode: serial.LenIndirect, LenObj: 9}},
		}},
		{Ops: map[uint32]serial.Op{
			1: {Value: syntax.I(11)},
			2: {Free: true, NextGen: 1},
		}},
		{Ops: map[uint32]serial.Op{
			2: {Gen: 1, Value: syntax.I(22)},
			3: {Free: true, NextGen: 65535},
		}},
	}
	s := Apply(revs)
	if v, ok := s.Get(1, 0); !ok || v.Value.Int != 11 {
		t.Errorf("object 1: %+v %v", v, ok)
	}
	if _, ok := s.Get(2, 0); ok {
		t.Error("object 2 generation 0 still visible")
	}
	if v, ok := s.Get(2, 1); !ok || v.Value.Int != 22 {
		t.Errorf("object 2 generation 1: %+v %v", v, ok)
	}
	if _, ok := s.Get(3, 0); ok {
		t.Error("freed object 3 visible")
	}
	if s[3].InUse || s[3].Gen != 65535 {
		t.Errorf("object 3: %+v", s[3])
	}
	if v, ok := s.Get(9, 0); !ok || v.Value.Int != 3 {
		t.Errorf("length object: %+v %v", v, ok)
	}
	if _, ok := s.Get(4, 0); ok {
		t.Error("absent object visible")
	}
	if s2 := Apply(revs[:1]); !s2[3].IsStream || string(s2[3].Stream) != "abc" {
		t.Errorf("stream slot: %+v", s2[3])
	}
}
