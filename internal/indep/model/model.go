// Package model holds the reference model of a cross-reference history: the
// revisions are applied oldest to newest to a map from object number to
// "free with generation g" or "in use with generation g and value v"
// (ISO 32000 7.5.6: an update's entries replace those of earlier sections).
package model

import (
	"seehuhn.de/go/pdf/verif/internal/indep/serial"
	"seehuhn.de/go/pdf/verif/internal/indep/syntax"
)

// Slot is the state of one object number.  For a free slot Gen is the
// generation field of its free entry.
type Slot struct {
	InUse    bool
	Gen      uint16
	Value    syntax.Value // the object, or the stream dictionary without /Length
	IsStream bool
	Stream   []byte
}

// State maps object numbers to slots; numbers never mentioned are absent.
type State map[uint32]Slot

// Apply replays the revisions oldest to newest.  The integer objects which
// serial.Write creates for streams with LenIndirect are part of the state
// (their value is the length of the untransformed data).
func Apply(revs []serial.Revision) State {
	s := State{}
	for _, rev := range revs {
		for n, op := range rev.Ops {
			if op.Free {
				s[n] = Slot{Gen: op.NextGen}
				continue
			}
			slot := Slot{InUse: true, Gen: op.Gen, Value: op.Value}
			if op.Stream != nil {
				slot.IsStream = true
				slot.Stream = op.Stream.Data
				if op.Stream.LenMode == serial.LenIndirect {
					s[op.Stream.LenObj] = Slot{InUse: true, Value: syntax.I(int64(len(op.Stream.Data)))}
				}
			}
			s[n] = slot
		}
	}
	return s
}

// Get returns the slot a reference resolves to; ok is false (the reference
// denotes the null object) if the number is absent, free, or in use with a
// different generation.
func (s State) Get(num uint32, gen uint16) (Slot, bool) {
	slot, ok := s[num]
	if !ok || !slot.InUse || slot.Gen != gen {
		return Slot{}, false
	}
	return slot, true
}
