package strict

import (
	"bytes"
	"compress/zlib"
	"fmt"
	"io"

	"seehuhn.de/go/pdf/verif/internal/indep/syntax"
)

func intParm(parms syntax.Value, key string, def int) (int, error) {
	v, ok := parms.Get(key)
	if !ok || v.Kind == syntax.Null {
		return def, nil
	}
	if v.Kind != syntax.Int || v.Int < 0 || v.Int > 1<<30 {
		return 0, fmt.Errorf("/%s is not a usable integer", key)
	}
	return int(v.Int), nil
}

// DecodeFlate inflates raw (zlib format) and undoes the predictor described by
// the decode parameters (a dictionary, or null for none): /Predictor 1 (none),
// 2 (TIFF, 8 bits per component) and 10..15 (PNG, all five filter types).
func DecodeFlate(raw []byte, parms syntax.Value) ([]byte, error) {
	zr, err := zlib.NewReader(bytes.NewReader(raw))
	if err != nil {
		return nil, fmt.Errorf("flate: %w", err)
	}
	data, err := io.ReadAll(zr)
	if err != nil {
		return nil, fmt.Errorf("flate: %w", err)
	}
	if parms.Kind == syntax.Null {
		return data, nil
	}
	if parms.Kind != syntax.Dict {
		return nil, fmt.Errorf("decode parameters are not a dictionary")
	}
	pred, err := intParm(parms, "Predictor", 1)
	if err != nil {
		return nil, err
	}
	if pred == 1 {
		return data, nil
	}
	colors, err := intParm(parms, "Colors", 1)
	if err != nil {
		return nil, err
	}
	bpc, err := intParm(parms, "BitsPerComponent", 8)
	if err != nil {
		return nil, err
	}
	cols, err := intParm(parms, "Columns", 1)
	if err != nil {
		return nil, err
	}
	if colors < 1 || cols < 1 || (bpc != 1 && bpc != 2 && bpc != 4 && bpc != 8 && bpc != 16) {
		return nil, fmt.Errorf("bad predictor parameters")
	}
	bpp := (colors*bpc + 7) / 8
	rowLen := (colors*bpc*cols + 7) / 8
	switch {
	case pred == 2:
		if bpc != 8 {
			return nil, fmt.Errorf("TIFF predictor with %d bits per component not supported", bpc)
		}
		out := append([]byte{}, data...)
		for start := 0; start < len(out); start += rowLen {
			end := start + rowLen
			if end > len(out) {
				end = len(out)
			}
			for i := start + bpp; i < end; i++ {
				out[i] += out[i-bpp]
			}
		}
		return out, nil
	case pred >= 10 && pred <= 15:
		if len(data)%(rowLen+1) != 0 {
			return nil, fmt.Errorf("PNG predictor: %d bytes are not a multiple of the row length %d+1", len(data), rowLen)
		}
		out := make([]byte, 0, len(data))
		prev := make([]byte, rowLen)
		for pos := 0; pos < len(data); pos += rowLen + 1 {
			ft := data[pos]
			row := append([]byte{}, data[pos+1:pos+1+rowLen]...)
			for i := range row {
				var a, b, c byte
				if i >= bpp {
					a = row[i-bpp]
					c = prev[i-bpp]
				}
				b = prev[i]
				switch ft {
				case 0:
				case 1:
					row[i] += a
				case 2:
					row[i] += b
				case 3:
					row[i] += byte((int(a) + int(b)) / 2)
				case 4:
					p := int(a) + int(b) - int(c)
					pa, pb, pc := iabs(p-int(a)), iabs(p-int(b)), iabs(p-int(c))
					switch {
					case pa <= pb && pa <= pc:
						row[i] += a
					case pb <= pc:
						row[i] += b
					default:
						row[i] += c
					}
				default:
					return nil, fmt.Errorf("PNG predictor: unknown filter type %d", ft)
				}
			}
			out = append(out, row...)
			prev = row
		}
		return out, nil
	}
	return nil, fmt.Errorf("unknown predictor %d", pred)
}

func iabs(x int) int {
	if x < 0 {
		return -x
	}
	return x
}

// DecodeStream decodes stream data whose dictionary has no /Filter or the
// single filter /FlateDecode (given as name or as one-element array).
func DecodeStream(dict syntax.Value, raw []byte) ([]byte, error) {
	f := dict.Lookup("Filter")
	p := dict.Lookup("DecodeParms")
	if f.Kind == syntax.Array {
		switch len(f.Arr) {
		case 0:
			return raw, nil
		case 1:
			f = f.Arr[0]
		default:
			return nil, fmt.Errorf("filter chains are not supported")
		}
		if p.Kind == syntax.Array {
			if len(p.Arr) != 1 {
				return nil, fmt.Errorf("/DecodeParms does not match /Filter")
			}
			p = p.Arr[0]
		}
	}
	switch {
	case f.Kind == syntax.Null:
		return raw, nil
	case f.Kind == syntax.Name && string(f.Bytes) == "FlateDecode":
		return DecodeFlate(raw, p)
	}
	return nil, fmt.Errorf("unsupported filter %v", f)
}
