// Package strict is a whole-file PDF validator and extractor written from
// ISO 32000 (7.5 file structure, 7.3.8 streams).  It accepts exactly the
// files whose structure satisfies the clauses listed at Parse and reports the
// violated clause otherwise.  It shares no code with seehuhn.de/go/pdf.
package strict

import (
	"bytes"
	"fmt"
	"sort"
	"strconv"

	"seehuhn.de/go/pdf/verif/internal/indep/syntax"
)

// The clauses a file can violate.
const (
	ClauseHeader     = "header"            // %PDF-x.y at byte 0
	ClauseEOF        = "eof"               // %%EOF is the last line
	ClauseStartXRef  = "startxref"         // startxref names the start of the last cross-reference section
	ClauseTable      = "xref-table"        // table layout: subsection headers, 20-byte entries, trailer
	ClauseEntry      = "xref-entry-offset" // an in-use entry points at the "N G obj" of that very object
	ClauseXRefStream = "xref-stream"       // /Type /XRef, /W, /Index, decoded length
	ClauseCompressed = "xref-type2"        // a type-2 entry names a generation-0 /ObjStm which lists the object at that index
	ClauseSize       = "size-coverage"     // every object number below /Size has exactly one entry
	ClauseLength     = "stream-length"     // stream framing and /Length
	ClauseObjStm     = "objstm"            // /N, /First, offset table, members
	ClauseSyntax     = "syntax"            // object syntax
	ClauseTrailer    = "trailer"           // trailer dictionary
)

// Error reports a violated clause.
type Error struct {
	Clause string
	Offset int
	Msg    string
}

func (e *Error) Error() string {
	return fmt.Sprintf("strict: clause %q violated at byte %d: %s", e.Clause, e.Offset, e.Msg)
}

func fail(clause string, off int, format string, args ...any) error {
	return &Error{Clause: clause, Offset: off, Msg: fmt.Sprintf(format, args...)}
}

// Object is one indirect object of the file.
type Object struct {
	Num         uint32
	Gen         uint16
	Offset, End int
	Value       syntax.Value
	IsStream    bool
	StreamDict  syntax.Value
	RawStream   []byte
	StreamStart int
	InObjStm    uint32
	Index       int
	Undecoded   bool // compressed object of an encrypted file: Value is not available

	dictRange [2]int
}

// XEntry is one cross-reference entry: type 0 (free: next free number,
// generation), 1 (in use: offset, generation) or 2 (compressed: container,
// index).
type XEntry struct {
	Type   int
	F2, F3 int64
}

// Section is one cross-reference section.
type Section struct {
	Kind           string
	Offset         int
	XRef           [2]int
	TrailerKeyword [2]int
	TrailerDict    [2]int
	Trailer        syntax.Value
	Entries        map[uint32]XEntry
	Order          []uint32
	XRefStm        *Section
	StreamNum      uint32
}

// File is the result of parsing.
type File struct {
	Data           []byte
	Version        string
	Objects        map[uint32]*Object
	Free           map[uint32]uint16
	Trailer        syntax.Value
	XRefKind       string
	StartXRef      int
	XRefOffset     int
	XRef           [2]int
	TrailerKeyword [2]int
	Sections       []*Section
	Size           int64
	Encrypted      bool
}

// Nums returns the numbers of the in-use objects in ascending order.
func (f *File) Nums() []uint32 {
	nums := make([]uint32, 0, len(f.Objects))
	for n := range f.Objects {
		nums = append(nums, n)
	}
	sort.Slice(nums, func(i, j int) bool { return nums[i] < nums[j] })
	return nums
}

// Options modifies the validation.
type Options struct {
	// AllowBadLength makes the parser delimit a stream whose /Length is
	// missing, unusable or wrong by the end-of-line marker that precedes the
	// first "endstream" after an end-of-line marker, instead of failing.
	AllowBadLength bool
}

// Parse validates data with default options.
//
// Clauses checked: %PDF-x.y at byte 0; %%EOF is the last line; the number
// after startxref is the offset of the keyword xref / of the first digit of
// the cross-reference stream's object header; classic tables consist of
// subsection headers "start count" and entries of exactly 20 bytes with a
// two-byte end-of-line marker; every in-use entry (of every section) points
// at the first digit of "N G obj" with that number and generation;
// cross-reference streams have /Type /XRef, a /W of three integers, an /Index
// of pairs and decode to rows x sum(W) bytes; type-2 entries name an
// uncompressed generation-0 /Type /ObjStm stream which lists that object
// number at that index; no section has two entries for one number, no entry
// lies at or above /Size, and every number below the /Size of the newest
// section has an entry in some section of the /Prev chain; stream data starts
// after "stream" CR LF or "stream" LF, is /Length bytes long (direct, or an
// indirect integer object) and is followed by an end-of-line marker and
// "endstream"; object streams have /N pairs in the /First bytes of their
// header, strictly ascending offsets starting at 0, and every member is one
// non-stream object.
//
// Object number 0 never has an in-use entry.
//
// Not demanded: a linked free list, an entry for the cross-reference stream
// itself, generation 65535 for object 0, any SHOULD-level advice.
func Parse(data []byte) (*File, error) { return ParseWith(data, Options{}) }

type parser struct {
	data []byte
	opt  Options
	file *File
	win  map[uint32]XEntry // the winning entry per number
	objs map[int]*Object   // parsed uncompressed objects by offset
	busy map[int]bool
	stms map[uint32]*objStm
}

type objStm struct {
	members []Member
	err     error
}

// Member is one object inside an object stream.
type Member struct {
	Num         uint32
	Offset, End int // byte range in the decoded data
	Value       syntax.Value
}

func isEOLByte(b byte) bool { return b == '\r' || b == '\n' }

// eolAt returns the length of the end-of-line marker at pos (0 if none).
func eolAt(data []byte, pos int) int {
	if pos < len(data) && data[pos] == '\r' {
		if pos+1 < len(data) && data[pos+1] == '\n' {
			return 2
		}
		return 1
	}
	if pos < len(data) && data[pos] == '\n' {
		return 1
	}
	return 0
}

// digitsAt returns the end of the run of decimal digits starting at pos.
func digitsAt(data []byte, pos int) int {
	for pos < len(data) && data[pos] >= '0' && data[pos] <= '9' {
		pos++
	}
	return pos
}

// ParseWith validates data and extracts its objects.
func ParseWith(data []byte, opt Options) (*File, error) {
	p := &parser{data: data, opt: opt, file: &File{Data: data}, objs: map[int]*Object{}, busy: map[int]bool{}, stms: map[uint32]*objStm{}}
	f := p.file

	// ---- header
	if len(data) < 9 || !bytes.HasPrefix(data, []byte("%PDF-")) ||
		data[5] < '0' || data[5] > '9' || data[6] != '.' || data[7] < '0' || data[7] > '9' || !isEOLByte(data[8]) {
		return nil, fail(ClauseHeader, 0, "file does not start with %%PDF-x.y and an end-of-line marker")
	}
	f.Version = string(data[5:8])

	// ---- %%EOF, startxref
	end := len(data)
	if end > 0 && data[end-1] == '\n' {
		end--
		if end > 0 && data[end-1] == '\r' {
			end--
		}
	} else if end > 0 && data[end-1] == '\r' {
		end--
	}
	if end < 5 || string(data[end-5:end]) != "%%EOF" {
		return nil, fail(ClauseEOF, end, "%%%%EOF is not the last line")
	}
	q := end - 5
	if q < 1 || !isEOLByte(data[q-1]) {
		return nil, fail(ClauseEOF, q, "%%%%EOF does not stand at the start of a line")
	}
	q--
	if data[q] == '\n' && q > 0 && data[q-1] == '\r' {
		q--
	}
	// q is the end of the number line
	ds := q
	for ds > 0 && data[ds-1] >= '0' && data[ds-1] <= '9' {
		ds--
	}
	if ds == q {
		return nil, fail(ClauseStartXRef, q, "no offset between startxref and %%%%EOF")
	}
	xoff, err := strconv.Atoi(string(data[ds:q]))
	if err != nil {
		return nil, fail(ClauseStartXRef, ds, "bad offset")
	}
	if ds < 1 || !isEOLByte(data[ds-1]) {
		return nil, fail(ClauseStartXRef, ds, "the offset does not stand on a line of its own")
	}
	k := ds - 1
	if data[k] == '\n' && k > 0 && data[k-1] == '\r' {
		k--
	}
	if k < 9 || string(data[k-9:k]) != "startxref" {
		return nil, fail(ClauseStartXRef, k, "keyword startxref not found before the offset")
	}
	f.StartXRef = k - 9
	f.XRefOffset = xoff

	// ---- the chain of sections
	seen := map[int]bool{}
	off := xoff
	for {
		if seen[off] {
			return nil, fail(ClauseTrailer, off, "/Prev chain loops")
		}
		seen[off] = true
		sec, err := p.section(off)
		if err != nil {
			return nil, err
		}
		f.Sections = append(f.Sections, sec)
		if x, ok := sec.Trailer.Get("XRefStm"); ok && sec.Kind == "table" {
			if x.Kind != syntax.Int {
				return nil, fail(ClauseTrailer, sec.TrailerDict[0], "/XRefStm is not an integer")
			}
			sub, err := p.section(int(x.Int))
			if err != nil {
				return nil, err
			}
			if sub.Kind != "stream" {
				return nil, fail(ClauseTrailer, int(x.Int), "/XRefStm does not name a cross-reference stream")
			}
			sec.XRefStm = sub
		}
		prev, ok := sec.Trailer.Get("Prev")
		if !ok {
			break
		}
		if prev.Kind != syntax.Int || prev.Int <= 0 || prev.Int >= int64(len(data)) {
			return nil, fail(ClauseTrailer, sec.TrailerDict[0], "bad /Prev")
		}
		off = int(prev.Int)
	}
	newest := f.Sections[0]
	f.Trailer = newest.Trailer
	f.XRefKind = newest.Kind
	f.XRef = newest.XRef
	f.TrailerKeyword = newest.TrailerKeyword
	_, f.Encrypted = f.Trailer.Get("Encrypt")
	sz := f.Trailer.Lookup("Size")
	if sz.Kind != syntax.Int || sz.Int < 1 {
		return nil, fail(ClauseTrailer, newest.TrailerDict[0], "missing or bad /Size")
	}
	f.Size = sz.Int

	// ---- merge: the newest entry for a number wins
	p.win = map[uint32]XEntry{}
	for _, sec := range f.Sections {
		parts := []*Section{sec}
		if sec.XRefStm != nil {
			parts = append(parts, sec.XRefStm)
		}
		secSize := sec.Trailer.Lookup("Size")
		for _, part := range parts {
			for _, n := range part.Order {
				if secSize.Kind == syntax.Int && int64(n) >= secSize.Int {
					return nil, fail(ClauseSize, part.Offset, "entry for object %d at or above /Size %d", n, secSize.Int)
				}
				if _, ok := p.win[n]; !ok {
					p.win[n] = part.Entries[n]
				}
			}
		}
	}
	if e, ok := p.win[0]; ok && e.Type != 0 {
		// 7.3.10: the object number of an indirect object is a positive
		// integer; 7.5.4: the entry for object number 0 is always free
		return nil, fail(ClauseEntry, newest.Offset, "object number 0 has an in-use entry (type %d): object numbers are positive and entry 0 heads the free list", e.Type)
	}
	for n := int64(0); n < f.Size; n++ {
		if _, ok := p.win[uint32(n)]; !ok {
			return nil, fail(ClauseSize, newest.Offset, "object number %d is below /Size %d but has no entry", n, f.Size)
		}
	}

	// ---- every in-use entry of every section points at its object
	for _, sec := range f.Sections {
		parts := []*Section{sec}
		if sec.XRefStm != nil {
			parts = append(parts, sec.XRefStm)
		}
		for _, part := range parts {
			for _, n := range part.Order {
				e := part.Entries[n]
				if e.Type != 1 {
					continue
				}
				if e.F3 < 0 || e.F3 > 65535 {
					return nil, fail(ClauseEntry, part.Offset, "object %d: generation %d out of range", n, e.F3)
				}
				if _, err := p.objectAt(int(e.F2), n, uint16(e.F3)); err != nil {
					return nil, err
				}
			}
		}
	}

	// ---- final state
	f.Objects = map[uint32]*Object{}
	f.Free = map[uint32]uint16{}
	nums := make([]uint32, 0, len(p.win))
	for n := range p.win {
		nums = append(nums, n)
	}
	sort.Slice(nums, func(i, j int) bool { return nums[i] < nums[j] })
	for _, n := range nums {
		e := p.win[n]
		switch e.Type {
		case 0:
			f.Free[n] = uint16(e.F3)
		case 1:
			o, err := p.objectAt(int(e.F2), n, uint16(e.F3))
			if err != nil {
				return nil, err
			}
			f.Objects[n] = o
		case 2:
			o, err := p.compressed(n, e)
			if err != nil {
				return nil, err
			}
			f.Objects[n] = o
		}
	}
	// type-2 entries of older sections are checked as well
	for _, sec := range f.Sections {
		parts := []*Section{sec}
		if sec.XRefStm != nil {
			parts = append(parts, sec.XRefStm)
		}
		for _, part := range parts {
			for _, n := range part.Order {
				if e := part.Entries[n]; e.Type == 2 && p.win[n] != e {
					if c, ok := p.win[uint32(e.F2)]; ok && c.Type == 1 {
						if _, err := p.compressed(n, e); err != nil {
							return nil, err
						}
					}
				}
			}
		}
	}
	return f, nil
}

// section parses the cross-reference section at off.
func (p *parser) section(off int) (*Section, error) {
	data := p.data
	if off <= 0 || off >= len(data) {
		return nil, fail(ClauseStartXRef, off, "cross-reference offset outside the file")
	}
	if bytes.HasPrefix(data[off:], []byte("xref")) {
		return p.table(off)
	}
	if data[off] < '0' || data[off] > '9' {
		return nil, fail(ClauseStartXRef, off, "offset names neither the keyword xref nor an object header")
	}
	return p.xrefStream(off)
}

func (p *parser) table(off int) (*Section, error) {
	data := p.data
	sec := &Section{Kind: "table", Offset: off, Entries: map[uint32]XEntry{}}
	pos := off + 4
	n := eolAt(data, pos)
	if n == 0 {
		return nil, fail(ClauseTable, pos, "keyword xref is not followed by an end-of-line marker")
	}
	pos += n
	for {
		if bytes.HasPrefix(data[pos:], []byte("trailer")) {
			break
		}
		// subsection header: start SP count EOL
		e1 := digitsAt(data, pos)
		if e1 == pos || e1 >= len(data) || data[e1] != ' ' {
			return nil, fail(ClauseTable, pos, "bad subsection header")
		}
		e2 := digitsAt(data, e1+1)
		if e2 == e1+1 {
			return nil, fail(ClauseTable, pos, "bad subsection header")
		}
		start, err1 := strconv.ParseUint(string(data[pos:e1]), 10, 32)
		count, err2 := strconv.ParseUint(string(data[e1+1:e2]), 10, 32)
		if err1 != nil || err2 != nil {
			return nil, fail(ClauseTable, pos, "bad subsection header")
		}
		n := eolAt(data, e2)
		if n == 0 {
			return nil, fail(ClauseTable, e2, "subsection header is not followed by an end-of-line marker")
		}
		pos = e2 + n
		for i := uint64(0); i < count; i++ {
			if pos+20 > len(data) {
				return nil, fail(ClauseTable, pos, "truncated entry")
			}
			l := data[pos : pos+20]
			ok := digitsAt(l, 0) == 10 && l[10] == ' ' && digitsAt(l, 11) == 16 && l[16] == ' ' &&
				(l[17] == 'n' || l[17] == 'f') &&
				((l[18] == ' ' && (l[19] == '\r' || l[19] == '\n')) || (l[18] == '\r' && l[19] == '\n'))
			if !ok {
				return nil, fail(ClauseTable, pos, "entry %q is not of the form 'nnnnnnnnnn ggggg n|f' + two-byte end-of-line marker", l)
			}
			a, _ := strconv.ParseInt(string(l[:10]), 10, 64)
			g, _ := strconv.ParseInt(string(l[11:16]), 10, 64)
			num := uint32(start + i)
			if _, dup := sec.Entries[num]; dup {
				return nil, fail(ClauseSize, pos, "two entries for object %d in one section", num)
			}
			tp := 1
			if l[17] == 'f' {
				tp = 0
			}
			sec.Entries[num] = XEntry{Type: tp, F2: a, F3: g}
			sec.Order = append(sec.Order, num)
			pos += 20
		}
	}
	sec.XRef = [2]int{off, pos}
	sec.TrailerKeyword = [2]int{pos, pos + 7}
	pos += 7
	v, next, err := syntax.ParseObjectStrict(data, pos)
	if err != nil {
		return nil, fail(ClauseTrailer, pos, "trailer dictionary: %v", err)
	}
	if v.Kind != syntax.Dict {
		return nil, fail(ClauseTrailer, pos, "trailer is not followed by a dictionary")
	}
	sec.Trailer = v
	sec.TrailerDict = [2]int{syntax.SkipWS(data, pos), next}
	return sec, nil
}

func (p *parser) xrefStream(off int) (*Section, error) {
	o, err := p.parseObject(off, false)
	if err != nil {
		if e, ok := err.(*Error); ok && e.Clause == ClauseEntry {
			e.Clause = ClauseStartXRef
		}
		return nil, err
	}
	if !o.IsStream {
		return nil, fail(ClauseXRefStream, off, "object is not a stream")
	}
	d := o.StreamDict
	if t := d.Lookup("Type"); t.Kind != syntax.Name || string(t.Bytes) != "XRef" {
		return nil, fail(ClauseXRefStream, off, "/Type is not /XRef")
	}
	sec := &Section{Kind: "stream", Offset: off, Entries: map[uint32]XEntry{}, Trailer: d,
		XRef: [2]int{o.Offset, o.End}, StreamNum: o.Num}
	sec.TrailerDict = [2]int{o.dictRange[0], o.dictRange[1]}
	size := d.Lookup("Size")
	if size.Kind != syntax.Int || size.Int < 0 {
		return nil, fail(ClauseXRefStream, off, "missing or bad /Size")
	}
	wv := d.Lookup("W")
	if wv.Kind != syntax.Array || len(wv.Arr) != 3 {
		return nil, fail(ClauseXRefStream, off, "/W is not an array of three integers")
	}
	var w [3]int
	total := 0
	for i, x := range wv.Arr {
		if x.Kind != syntax.Int || x.Int < 0 || x.Int > 8 {
			return nil, fail(ClauseXRefStream, off, "/W is not an array of three small non-negative integers")
		}
		w[i] = int(x.Int)
		total += w[i]
	}
	if total == 0 {
		return nil, fail(ClauseXRefStream, off, "/W is all zero")
	}
	index := []int64{0, size.Int}
	if iv, ok := d.Get("Index"); ok {
		if iv.Kind != syntax.Array || len(iv.Arr)%2 != 0 {
			return nil, fail(ClauseXRefStream, off, "/Index is not an array of pairs")
		}
		index = index[:0]
		for _, x := range iv.Arr {
			if x.Kind != syntax.Int || x.Int < 0 || x.Int > 1<<32-1 {
				return nil, fail(ClauseXRefStream, off, "/Index is not an array of non-negative integers")
			}
			index = append(index, x.Int)
		}
	}
	rows := int64(0)
	for i := 0; i < len(index); i += 2 {
		rows += index[i+1]
	}
	dec, err := DecodeStream(d, o.RawStream)
	if err != nil {
		return nil, fail(ClauseXRefStream, off, "cannot decode: %v", err)
	}
	if int64(len(dec)) != rows*int64(total) {
		return nil, fail(ClauseXRefStream, off, "decoded length %d is not rows x sum(W) = %d x %d", len(dec), rows, total)
	}
	pos := 0
	field := func(width int, def int64) int64 {
		if width == 0 {
			return def
		}
		var x uint64
		for i := 0; i < width; i++ {
			x = x<<8 | uint64(dec[pos+i])
		}
		pos += width
		return int64(x)
	}
	for i := 0; i < len(index); i += 2 {
		for k := int64(0); k < index[i+1]; k++ {
			num := uint32(index[i] + k)
			tp := field(w[0], 1)
			f2 := field(w[1], 0)
			f3 := field(w[2], 0)
			if _, dup := sec.Entries[num]; dup {
				return nil, fail(ClauseSize, off, "two entries for object %d in one section", num)
			}
			if tp < 0 || tp > 2 {
				return nil, fail(ClauseXRefStream, off, "entry type %d for object %d", tp, num)
			}
			sec.Entries[num] = XEntry{Type: int(tp), F2: f2, F3: f3}
			sec.Order = append(sec.Order, num)
		}
	}
	return sec, nil
}

// objectAt parses the object at off (caching the result) and checks that it
// is object num gen.
func (p *parser) objectAt(off int, num uint32, gen uint16) (*Object, error) {
	o, ok := p.objs[off]
	if !ok {
		if off <= 0 || off >= len(p.data) {
			return nil, fail(ClauseEntry, off, "entry for object %d %d points outside the file", num, gen)
		}
		if p.busy[off] {
			return nil, fail(ClauseLength, off, "/Length depends on itself")
		}
		p.busy[off] = true
		var err error
		o, err = p.parseObject(off, true)
		delete(p.busy, off)
		if err != nil {
			return nil, err
		}
		p.objs[off] = o
	}
	if o.Num != num || o.Gen != gen {
		return nil, fail(ClauseEntry, off, "entry for object %d %d points at object %d %d", num, gen, o.Num, o.Gen)
	}
	return o, nil
}
