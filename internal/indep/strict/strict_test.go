package strict_test

import (
	"bytes"
	"fmt"
	"strings"
	"testing"

	"seehuhn.de/go/pdf/verif/internal/indep/serial"
	"seehuhn.de/go/pdf/verif/internal/indep/strict"
	"seehuhn.de/go/pdf/verif/internal/indep/syntax"
)

func base(t *testing.T, kind serial.SectionKind) []byte {
	t.Helper()
	revs := []serial.Revision{{Kind: kind, Ops: map[uint32]serial.Op{
		1: {Value: syntax.D("Type", syntax.N("Catalog"), "Pages", syntax.RefTo(2, 0))},
		2: {Value: syntax.D("Type", syntax.N("Pages"), "Kids", syntax.A(), "Count", syntax.I(0))},
		3: {Value: syntax.D(), Stream: &serial.StreamSpec{Data: []byte("hello")}},
		4: {Value: syntax.I(42), Compress: true},
		5: {Value: syntax.S([]byte("five")), Compress: true},
	}, Trailer: []syntax.Entry{{Key: []byte("Root"), Val: syntax.RefTo(1, 0)}}}}
	res, err := serial.Write(revs, serial.Options{})
	if err != nil {
		t.Fatal(err)
	}
	if _, err := strict.Parse(res.Data); err != nil {
		t.Fatalf("base file rejected: %v\n%s", err, res.Data)
	}
	return res.Data
}

func replace(t *testing.T, data []byte, old, new string) []byte {
	t.Helper()
	if bytes.Count(data, []byte(old)) != 1 {
		t.Fatalf("%q occurs %d times in\n%s", old, bytes.Count(data, []byte(old)), data)
	}
	return bytes.Replace(data, []byte(old), []byte(new), 1)
}

func expect(t *testing.T, name string, data []byte, clause string) {
	t.Helper()
	_, err := strict.Parse(data)
	if err == nil {
		t.Errorf("%s: accepted", name)
		return
	}
	e, ok := err.(*strict.Error)
	if !ok || e.Clause != clause {
		t.Errorf("%s: got %v, want clause %q", name, err, clause)
	}
}

func TestRejectsTable(t *testing.T) {
	d := base(t, serial.Table)
	expect(t, "junk before header", append([]byte("x"), d...), strict.ClauseHeader)
	expect(t, "bad version", replace(t, d, "%PDF-1.7", "%PDF-17."), strict.ClauseHeader)
	expect(t, "no EOF", d[:len(d)-6], strict.ClauseEOF)
	expect(t, "trailing garbage", append(append([]byte{}, d...), "x\n"...), strict.ClauseEOF)
	expect(t, "two EOLs at the end", append(append([]byte{}, d...), '\n'), strict.ClauseEOF)
	// startxref off by one: same digit count, so nothing moves
	f, _ := strict.Parse(d)
	expect(t, "startxref+1", replace(t, d, fmt.Sprintf("startxref\n%d\n", f.XRefOffset), fmt.Sprintf("startxref\n%d\n", f.XRefOffset+1)), strict.ClauseStartXRef)
	expect(t, "startxref-1", replace(t, d, fmt.Sprintf("startxref\n%d\n", f.XRefOffset), fmt.Sprintf("startxref\n%d\n", f.XRefOffset-1)), strict.ClauseStartXRef)
	// 19-byte lines
	expect(t, "19-byte entries", bytes.ReplaceAll(d, []byte(" n \n"), []byte(" n\n")), strict.ClauseTable)
	// entry offset
	off := fmt.Sprintf("%010d 00000 n", f.Objects[2].Offset)
	expect(t, "entry+1", replace(t, d, off, fmt.Sprintf("%010d 00000 n", f.Objects[2].Offset+1)), strict.ClauseEntry)
	expect(t, "entry-1", replace(t, d, off, fmt.Sprintf("%010d 00000 n", f.Objects[2].Offset-1)), strict.ClauseEntry)
	expect(t, "entry gen", replace(t, d, off, fmt.Sprintf("%010d 00001 n", f.Objects[2].Offset)), strict.ClauseEntry)
	off1 := fmt.Sprintf("%010d 00000 n", f.Objects[1].Offset)
	expect(t, "entry of another object", replace(t, d, off, off1), strict.ClauseEntry)
	// length
	expect(t, "length+1", replace(t, d, "/Length 5 ", "/Length 6 "), strict.ClauseLength)
	expect(t, "length-1", replace(t, d, "/Length 5 ", "/Length 4 "), strict.ClauseLength)
	expect(t, "length real", replace(t, d, "/Length 5 ", "/Length 5."), strict.ClauseLength)
	expect(t, "no EOL before endstream", replace(t, d, "hello\nendstream", "hello endstream"), strict.ClauseLength)
	expect(t, "CR after stream", replace(t, d, "stream\nhello", "stream\rhello"), strict.ClauseLength)
	// coverage: shrink the subsection but keep Size
	nobj := len(f.Objects) + len(f.Free)
	last := fmt.Sprintf("%010d 00000 n \n", f.Objects[uint32(nobj-1)].Offset)
	d2 := replace(t, d, fmt.Sprintf("xref\n0 %d\n", nobj), fmt.Sprintf("xref\n0 %d\n", nobj-1))
	d2 = replace(t, d2, last+"trailer", "trailer")
	// startxref is unchanged because the table follows the objects
	expect(t, "missing entry", d2, strict.ClauseSize)
	// entry above Size
	expect(t, "entry above Size", replace(t, d, fmt.Sprintf("/Size %d", nobj), fmt.Sprintf("/Size %d", nobj-1)), strict.ClauseSize)
	if !strings.Contains(string(d), "trailer") {
		t.Fatal("no trailer")
	}
	if got := string(d[f.TrailerKeyword[0]:f.TrailerKeyword[1]]); got != "trailer" {
		t.Errorf("TrailerKeyword range holds %q", got)
	}
	if got := string(d[f.XRef[0] : f.XRef[0]+4]); got != "xref" || f.XRef[1] != f.TrailerKeyword[0] {
		t.Errorf("XRef range %v (%q), trailer keyword %v", f.XRef, got, f.TrailerKeyword)
	}
	if got := string(d[f.StartXRef : f.StartXRef+9]); got != "startxref" {
		t.Errorf("StartXRef points at %q", got)
	}
	for _, n := range f.Nums() {
		o := f.Objects[n]
		if o.InObjStm == 0 && !bytes.HasSuffix(d[:o.End], []byte("endobj")) {
			t.Errorf("object %d: End does not follow endobj", n)
		}
	}
}

func TestRejectsStream(t *testing.T) {
	d := base(t, serial.Stream)
	f, err := strict.Parse(d)
	if err != nil {
		t.Fatal(err)
	}
	if f.XRefKind != "stream" || f.Objects[4].InObjStm == 0 || f.Objects[5].Index != 1 || !syntax.Equal(f.Objects[5].Value, syntax.S([]byte("five"))) {
		t.Fatalf("unexpected parse: %+v", f.Objects[5])
	}
	expect(t, "type", replace(t, d, "/Type /XRef", "/Type /XReg"), strict.ClauseXRefStream)
	expect(t, "W", replace(t, d, "/W [ 1 2 2 ]", "/W [ 1 2 3 ]"), strict.ClauseXRefStream)
	expect(t, "objstm type", replace(t, d, "/Type /ObjStm", "/Type /ObjStn"), strict.ClauseCompressed)
	expect(t, "N", replace(t, d, "/N 2", "/N 3"), strict.ClauseObjStm)
	expect(t, "First+1", replace(t, d, "/First 8", "/First 9"), strict.ClauseObjStm)
	expect(t, "First-1", replace(t, d, "/First 8", "/First 7"), strict.ClauseObjStm)
	expect(t, "index table number", replace(t, d, "4 0 5 3", "4 0 6 3"), strict.ClauseCompressed)
	expect(t, "index table offset", replace(t, d, "4 0 5 3", "4 0 5 4"), strict.ClauseObjStm)
	expect(t, "index table order", replace(t, d, "4 0 5 3", "4 3 5 0"), strict.ClauseObjStm)
	if got := string(d[f.XRef[0]:f.XRef[1]]); !strings.HasSuffix(got, "endobj") || !strings.Contains(got, "/XRef") {
		t.Errorf("XRef range holds %q", got)
	}
}

func TestHybridAndPrev(t *testing.T) {
	revs := []serial.Revision{
		{Kind: serial.Table, Ops: map[uint32]serial.Op{
			1: {Value: syntax.D("Type", syntax.N("Catalog"), "Pages", syntax.RefTo(2, 0))},
			2: {Value: syntax.D("Type", syntax.N("Pages"), "Kids", syntax.A(), "Count", syntax.I(0))},
			3: {Value: syntax.I(3)},
		}, Trailer: []syntax.Entry{{Key: []byte("Root"), Val: syntax.RefTo(1, 0)}}},
		{Kind: serial.Hybrid, Ops: map[uint32]serial.Op{
			3: {Free: true, NextGen: 1},
			4: {Value: syntax.I(4), Hidden: true},
			5: {Value: syntax.I(5), Compress: true},
			6: {Value: syntax.I(6)},
		}, Trailer: []syntax.Entry{{Key: []byte("Root"), Val: syntax.RefTo(1, 0)}}},
	}
	res, err := serial.Write(revs, serial.Options{})
	if err != nil {
		t.Fatal(err)
	}
	f, err := strict.Parse(res.Data)
	if err != nil {
		t.Fatalf("%v\n%s", err, res.Data)
	}
	if len(f.Sections) != 2 || f.Sections[0].XRefStm == nil {
		t.Fatalf("sections: %+v", f.Sections)
	}
	tab, stm := f.Sections[0], f.Sections[0].XRefStm
	if _, ok := tab.Entries[4]; ok {
		t.Error("hidden object 4 is listed in the table")
	}
	if _, ok := tab.Entries[5]; ok {
		t.Error("compressed object 5 is listed in the table")
	}
	if e := stm.Entries[4]; e.Type != 1 {
		t.Errorf("hidden object 4 in XRefStm: %+v", e)
	}
	if e := stm.Entries[5]; e.Type != 2 {
		t.Errorf("compressed object 5 in XRefStm: %+v", e)
	}
	if f.Objects[3] != nil || f.Free[3] != 1 || f.Objects[6].Value.Int != 6 || f.Objects[5].Value.Int != 5 || f.Objects[4].Value.Int != 4 {
		t.Errorf("final state wrong: %v %v", f.Objects, f.Free)
	}
}

func TestDecodeFlatePredictors(t *testing.T) {
	// the serialiser's encoder against the parser's decoder, all filter types
	for seed := 0; seed < 200; seed++ {
		revs := []serial.Revision{{Kind: serial.Stream, Ops: map[uint32]serial.Op{
			1: {Value: syntax.D("Type", syntax.N("Catalog"), "Pages", syntax.RefTo(2, 0))},
			2: {Value: syntax.D("Type", syntax.N("Pages"), "Kids", syntax.A(), "Count", syntax.I(0))},
			3: {Value: syntax.I(int64(seed)), Compress: true},
			4: {Value: syntax.S(bytes.Repeat([]byte{byte(seed)}, seed)), Compress: true},
		}}}
		res, err := serial.Write(revs, serial.Options{Choose: &lcg{uint64(seed)}})
		if err != nil {
			t.Fatal(err)
		}
		if _, err := strict.Parse(res.Data); err != nil {
			t.Fatalf("seed %d: %v\n%q", seed, err, res.Data)
		}
	}
}

type lcg struct{ s uint64 }

func (l *lcg) Intn(n int) int {
	l.s = l.s*6364136223846793005 + 1442695040888963407
	return int((l.s >> 33) % uint64(n))
}

// TestTightObjStm: no white space is needed between the index and a first
// member which starts with a delimiter, nor between such members.
func TestTightObjStm(t *testing.T) {
	body := "4 0 5 12<</V(four)>>[/five 5]"
	file := "%PDF-1.7\n%\xe2\xe3\xcf\xd3\n1 0 obj<</Type/Catalog/Pages 2 0 R>>endobj\n2 0 obj<</Type/Pages/Kids[]/Count 0>>endobj\n"
	off3 := len(file)
	file += fmt.Sprintf("3 0 obj<</Type/ObjStm/N 2/First 8/Length %d>>stream\n%s\nendstream endobj\n", len(body), body)
	off6 := len(file)
	var rows []byte
	put := func(tp byte, f2 int, f3 byte) { rows = append(rows, tp, byte(f2>>8), byte(f2), f3) }
	put(0, 0, 255)
	put(1, 15, 0)
	put(1, 15+len("1 0 obj<</Type/Catalog/Pages 2 0 R>>endobj\n"), 0)
	put(1, off3, 0)
	put(2, 3, 0)
	put(2, 3, 1)
	put(1, off6, 0)
	file += fmt.Sprintf("6 0 obj<</Type/XRef/Size 7/W[1 2 1]/Root 1 0 R/Length %d>>stream\n%s\nendstream endobj\nstartxref\n%d\n%%%%EOF\n", len(rows), rows, off6)
	f, err := strict.Parse([]byte(file))
	if err != nil {
		t.Fatalf("%v\n%q", err, file)
	}
	if !syntax.Equal(f.Objects[4].Value, syntax.D("V", syntax.S([]byte("four")))) ||
		!syntax.Equal(f.Objects[5].Value, syntax.A(syntax.N("five"), syntax.I(5))) {
		t.Errorf("members: %v %v", f.Objects[4].Value, f.Objects[5].Value)
	}
}
