package strict

import (
	"bytes"
	"strconv"

	"seehuhn.de/go/pdf/verif/internal/indep/syntax"
)

func keywordAt(data []byte, pos int, kw string) bool {
	if !bytes.HasPrefix(data[pos:], []byte(kw)) {
		return false
	}
	end := pos + len(kw)
	return end >= len(data) || !syntax.IsRegular(data[end])
}

// parseObject parses "N G obj ... endobj"; the first digit of N must stand at
// off.  If canResolve is false an indirect /Length is an error.
func (p *parser) parseObject(off int, canResolve bool) (*Object, error) {
	data := p.data
	e1 := digitsAt(data, off)
	if e1 == off {
		return nil, fail(ClauseEntry, off, "no object header 'N G obj' at this offset (found %q)", clip(data[off:]))
	}
	num, err := strconv.ParseUint(string(data[off:e1]), 10, 32)
	if err != nil {
		return nil, fail(ClauseEntry, off, "bad object number")
	}
	s2 := syntax.SkipWS(data, e1)
	e2 := digitsAt(data, s2)
	if s2 == e1 || e2 == s2 {
		return nil, fail(ClauseEntry, off, "no object header 'N G obj' at this offset (found %q)", clip(data[off:]))
	}
	gen, err := strconv.ParseUint(string(data[s2:e2]), 10, 16)
	if err != nil {
		return nil, fail(ClauseEntry, off, "bad generation number")
	}
	s3 := syntax.SkipWS(data, e2)
	if s3 == e2 || !keywordAt(data, s3, "obj") {
		return nil, fail(ClauseEntry, off, "no object header 'N G obj' at this offset (found %q)", clip(data[off:]))
	}
	o := &Object{Num: uint32(num), Gen: uint16(gen), Offset: off}
	ps := syntax.Parser{Data: data, Strict: true}
	vstart := syntax.SkipWS(data, s3+3)
	v, next, err := ps.Object(vstart)
	if err != nil {
		return nil, fail(ClauseSyntax, vstart, "object %d %d: %v", num, gen, err)
	}
	o.Value = v
	o.dictRange = [2]int{vstart, next}
	q := syntax.SkipWS(data, next)
	if v.Kind == syntax.Dict && keywordAtLoose(data, q, "stream") {
		o.IsStream = true
		o.StreamDict = v
		s := q + 6
		var n int
		switch {
		case s+1 < len(data) && data[s] == '\r' && data[s+1] == '\n':
			n = 2
		case s < len(data) && data[s] == '\n':
			n = 1
		default:
			return nil, fail(ClauseLength, s, "object %d %d: keyword stream is not followed by CR LF or LF", num, gen)
		}
		start := s + n
		o.StreamStart = start
		length, lerr := p.streamLength(o, canResolve)
		endKw := -1
		if lerr == nil {
			if start+length > len(data) {
				lerr = fail(ClauseLength, start, "object %d %d: /Length %d reaches beyond the end of the file", num, gen, length)
			} else if m := eolAt(data, start+length); m == 0 || !bytes.HasPrefix(data[start+length+m:], []byte("endstream")) {
				lerr = fail(ClauseLength, start+length, "object %d %d: the %d bytes given by /Length are not followed by an end-of-line marker and endstream (found %q)", num, gen, length, clip(data[start+length:]))
			} else {
				endKw = start + length + m
			}
		}
		if lerr != nil {
			if !p.opt.AllowBadLength {
				return nil, lerr
			}
			// delimit by the end-of-line marker before endstream
			from := start
			for {
				k := bytes.Index(data[from:], []byte("endstream"))
				if k < 0 {
					return nil, fail(ClauseLength, start, "object %d %d: no end-of-line marker + endstream after the stream data", num, gen)
				}
				i := from + k
				if i > start && isEOLByte(data[i-1]) {
					endKw = i
					length = i - 1 - start
					if data[i-1] == '\n' && i-2 >= start && data[i-2] == '\r' {
						length--
					}
					break
				}
				from = i + 1
			}
		}
		o.RawStream = data[start : start+length]
		q = syntax.SkipWS(data, endKw+9)
	}
	if !keywordAt(data, q, "endobj") {
		return nil, fail(ClauseSyntax, q, "object %d %d: endobj expected, found %q", num, gen, clip(data[q:]))
	}
	o.End = q + 6
	return o, nil
}

// keywordAtLoose is keywordAt without the requirement that a delimiter or
// white space follows ("stream" must be followed by an end-of-line marker,
// which is checked by the caller).
func keywordAtLoose(data []byte, pos int, kw string) bool {
	return bytes.HasPrefix(data[pos:], []byte(kw))
}

func clip(b []byte) []byte {
	if len(b) > 30 {
		return b[:30]
	}
	return b
}

// streamLength returns the value of /Length if it is a non-negative integer
// or a reference to such an object.
func (p *parser) streamLength(o *Object, canResolve bool) (int, error) {
	lv, ok := o.StreamDict.Get("Length")
	if !ok {
		return 0, fail(ClauseLength, o.Offset, "object %d %d: stream without /Length", o.Num, o.Gen)
	}
	if lv.Kind == syntax.Ref {
		if !canResolve || p.win == nil {
			return 0, fail(ClauseLength, o.Offset, "object %d %d: indirect /Length cannot be resolved here", o.Num, o.Gen)
		}
		e, ok := p.win[lv.Num]
		var target *Object
		var err error
		switch {
		case ok && e.Type == 1 && e.F3 == int64(lv.Gen):
			target, err = p.objectAt(int(e.F2), lv.Num, lv.Gen)
		case ok && e.Type == 2 && lv.Gen == 0:
			target, err = p.compressed(lv.Num, e)
		default:
			return 0, fail(ClauseLength, o.Offset, "object %d %d: /Length refers to the missing object %d %d", o.Num, o.Gen, lv.Num, lv.Gen)
		}
		if err != nil {
			return 0, fail(ClauseLength, o.Offset, "object %d %d: /Length: %v", o.Num, o.Gen, err)
		}
		if target.IsStream || target.Undecoded {
			return 0, fail(ClauseLength, o.Offset, "object %d %d: /Length refers to a stream or an undecodable object", o.Num, o.Gen)
		}
		lv = target.Value
	}
	if lv.Kind != syntax.Int || lv.Int < 0 || lv.Int > int64(len(p.data)) {
		return 0, fail(ClauseLength, o.Offset, "object %d %d: /Length is %v, not a usable non-negative integer", o.Num, o.Gen, lv)
	}
	return int(lv.Int), nil
}

// compressed returns object n, which the entry e places in an object stream.
func (p *parser) compressed(n uint32, e XEntry) (*Object, error) {
	if e.F2 < 0 || e.F2 > 1<<32-1 {
		return nil, fail(ClauseCompressed, 0, "object %d: container number %d out of range", n, e.F2)
	}
	cnum := uint32(e.F2)
	ce, ok := p.win[cnum]
	if !ok || ce.Type != 1 || ce.F3 != 0 {
		return nil, fail(ClauseCompressed, 0, "object %d: container %d is not an uncompressed in-use object of generation 0", n, cnum)
	}
	co, err := p.objectAt(int(ce.F2), cnum, 0)
	if err != nil {
		return nil, err
	}
	if t := co.StreamDict.Lookup("Type"); !co.IsStream || t.Kind != syntax.Name || string(t.Bytes) != "ObjStm" {
		return nil, fail(ClauseCompressed, co.Offset, "object %d: container %d is not a /Type /ObjStm stream", n, cnum)
	}
	if p.file.Encrypted {
		return &Object{Num: n, InObjStm: cnum, Index: int(e.F3), Undecoded: true, Offset: -1}, nil
	}
	st, ok := p.stms[cnum]
	if !ok {
		st = &objStm{}
		dec, err := DecodeStream(co.StreamDict, co.RawStream)
		if err != nil {
			st.err = fail(ClauseObjStm, co.Offset, "object stream %d: cannot decode: %v", cnum, err)
		} else {
			st.members, st.err = ParseObjStm(co.StreamDict, dec)
			if se, ok := st.err.(*Error); ok {
				se.Offset = co.Offset
				se.Msg = "object stream " + strconv.FormatUint(uint64(cnum), 10) + ": " + se.Msg
			}
		}
		p.stms[cnum] = st
	}
	if st.err != nil {
		return nil, st.err
	}
	idx := int(e.F3)
	if e.F3 < 0 || idx >= len(st.members) || st.members[idx].Num != n {
		return nil, fail(ClauseCompressed, co.Offset, "object %d is not listed at index %d of object stream %d", n, e.F3, cnum)
	}
	m := st.members[idx]
	return &Object{Num: n, Offset: m.Offset, End: m.End, Value: m.Value, InObjStm: cnum, Index: idx}, nil
}

// ParseObjStm validates the decoded data of an object stream against its
// dictionary and returns the members.  (C10 calls it after decrypting and
// decoding the container of an encrypted file.)
func ParseObjStm(dict syntax.Value, dec []byte) ([]Member, error) {
	nv, fv := dict.Lookup("N"), dict.Lookup("First")
	if nv.Kind != syntax.Int || nv.Int < 0 || nv.Int > int64(len(dec)) {
		return nil, fail(ClauseObjStm, 0, "bad /N %v", nv)
	}
	if fv.Kind != syntax.Int || fv.Int < 0 || fv.Int > int64(len(dec)) {
		return nil, fail(ClauseObjStm, 0, "bad /First %v", fv)
	}
	n, first := int(nv.Int), int(fv.Int)
	header := dec[:first]
	members := make([]Member, n)
	offs := make([]int, n)
	pos := 0
	for i := 0; i < n; i++ {
		var vals [2]uint64
		for k := 0; k < 2; k++ {
			pos = syntax.SkipWS(header, pos)
			e := digitsAt(header, pos)
			if e == pos {
				return nil, fail(ClauseObjStm, 0, "the first /First bytes do not hold /N = %d pairs of integers", n)
			}
			x, err := strconv.ParseUint(string(header[pos:e]), 10, 32)
			if err != nil {
				return nil, fail(ClauseObjStm, 0, "bad integer in the offset table")
			}
			vals[k] = x
			pos = e
		}
		members[i].Num = uint32(vals[0])
		offs[i] = int(vals[1])
		if i == 0 && offs[0] != 0 {
			return nil, fail(ClauseObjStm, 0, "the first member does not start at /First (offset %d)", offs[0])
		}
		if i > 0 && offs[i] <= offs[i-1] {
			return nil, fail(ClauseObjStm, 0, "offsets are not ascending (%d after %d)", offs[i], offs[i-1])
		}
	}
	if syntax.SkipWS(header, pos) != len(header) {
		return nil, fail(ClauseObjStm, 0, "/First = %d does not point just after the offset table", first)
	}
	for i := range members {
		start := first + offs[i]
		end := len(dec)
		if i+1 < n {
			end = first + offs[i+1]
		}
		if start >= end || end > len(dec) {
			return nil, fail(ClauseObjStm, 0, "member %d lies outside the data", i)
		}
		if syntax.IsWhite(dec[start]) {
			return nil, fail(ClauseObjStm, 0, "offset of member %d points at white space", i)
		}
		ps := syntax.Parser{Data: dec[:end], Strict: true}
		v, next, err := ps.Object(start)
		if err != nil {
			return nil, fail(ClauseObjStm, 0, "member %d (object %d): %v", i, members[i].Num, err)
		}
		if syntax.SkipWS(dec[:end], next) != end {
			return nil, fail(ClauseObjStm, 0, "member %d (object %d) is followed by %q: not a single non-stream object", i, members[i].Num, clip(dec[next:end]))
		}
		members[i].Offset, members[i].End, members[i].Value = start, next, v
	}
	return members, nil
}
