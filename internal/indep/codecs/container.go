package codecs

import (
	"bytes"
	"compress/zlib"
	"encoding/binary"
	"errors"
	"fmt"
	"hash/crc32"
	"image"
	"image/color"
	"image/png"
	"io"

	"golang.org/x/image/ccitt"
)

// ---------------------------------------------------------------------------
// zlib

// ZlibDecode inflates a complete zlib stream (checksum verified).
func ZlibDecode(enc []byte) ([]byte, error) {
	r, err := zlib.NewReader(bytes.NewReader(enc))
	if err != nil {
		return nil, err
	}
	defer r.Close()
	out, err := io.ReadAll(r)
	if err != nil {
		return out, err
	}
	return out, nil
}

// ZlibEncode deflates at the given level (-2..9).
func ZlibEncode(data []byte, level int) []byte {
	var buf bytes.Buffer
	w, err := zlib.NewWriterLevel(&buf, level)
	if err != nil {
		panic(err)
	}
	w.Write(data)
	w.Close()
	return buf.Bytes()
}

// ---------------------------------------------------------------------------
// PNG container (PNG specification, sections 5 and 11)

var pngSig = []byte{0x89, 'P', 'N', 'G', '\r', '\n', 0x1a, '\n'}

func pngChunk(out *bytes.Buffer, typ string, data []byte) {
	var l [4]byte
	binary.BigEndian.PutUint32(l[:], uint32(len(data)))
	out.Write(l[:])
	crc := crc32.NewIEEE()
	crc.Write([]byte(typ))
	crc.Write(data)
	out.WriteString(typ)
	out.Write(data)
	binary.BigEndian.PutUint32(l[:], crc.Sum32())
	out.Write(l[:])
}

// PNGColorType returns the PNG colour type for a sample layout, or false if
// PNG cannot express it.
func PNGColorType(colors, bpc int) (byte, bool) {
	switch colors {
	case 1:
		switch bpc {
		case 1, 2, 4, 8, 16:
			return 0, true
		}
	case 2:
		if bpc == 8 || bpc == 16 {
			return 4, true
		}
	case 3:
		if bpc == 8 || bpc == 16 {
			return 2, true
		}
	case 4:
		if bpc == 8 || bpc == 16 {
			return 6, true
		}
	}
	return 0, false
}

// BuildPNG wraps a zlib stream of filtered scan lines as a non-interlaced
// PNG file.  split > 0 distributes the stream over IDAT chunks of that size.
func BuildPNG(width, height int, l Layout, idat []byte, split int) ([]byte, error) {
	ct, ok := PNGColorType(l.Colors, l.BPC)
	if !ok || width < 1 || height < 1 {
		return nil, errors.New("layout cannot be expressed as PNG")
	}
	var out bytes.Buffer
	out.Write(pngSig)
	ihdr := make([]byte, 13)
	binary.BigEndian.PutUint32(ihdr[0:], uint32(width))
	binary.BigEndian.PutUint32(ihdr[4:], uint32(height))
	ihdr[8] = byte(l.BPC)
	ihdr[9] = ct
	pngChunk(&out, "IHDR", ihdr)
	if split <= 0 {
		split = len(idat)
	}
	for len(idat) > 0 {
		n := min(split, len(idat))
		pngChunk(&out, "IDAT", idat[:n])
		idat = idat[n:]
	}
	pngChunk(&out, "IEND", nil)
	return out.Bytes(), nil
}

// PNGPixels decodes a PNG file with image/png and returns the samples in
// PDF layout (colours interleaved, MSB first, rows padded to bytes with zero
// bits), for the layouts accepted by BuildPNG.
func PNGPixels(file []byte, l Layout) ([]byte, error) {
	img, err := png.Decode(bytes.NewReader(file))
	if err != nil {
		return nil, err
	}
	b := img.Bounds()
	w, h := b.Dx(), b.Dy()
	rb := (l.Colors*l.BPC*w + 7) / 8
	out := make([]byte, rb*h)
	for y := 0; y < h; y++ {
		s := make([]uint16, 0, w*l.Colors)
		for x := 0; x < w; x++ {
			c := img.At(b.Min.X+x, b.Min.Y+y)
			switch l.Colors {
			case 1:
				if l.BPC == 16 {
					g, ok := c.(color.Gray16)
					if !ok {
						return nil, fmt.Errorf("unexpected colour type %T", c)
					}
					s = append(s, g.Y)
				} else {
					g, ok := c.(color.Gray)
					if !ok {
						return nil, fmt.Errorf("unexpected colour type %T", c)
					}
					// image/png scales 1, 2, 4 bit samples to 8 bits
					scale := uint16(255 / (1<<l.BPC - 1))
					if uint16(g.Y)%scale != 0 {
						return nil, fmt.Errorf("gray value %d is not a multiple of %d", g.Y, scale)
					}
					s = append(s, uint16(g.Y)/scale)
				}
			case 2, 4:
				// non-premultiplied in both representations
				if l.BPC == 16 {
					n, ok := c.(color.NRGBA64)
					if !ok {
						return nil, fmt.Errorf("unexpected colour type %T", c)
					}
					if l.Colors == 2 {
						s = append(s, n.R, n.A)
					} else {
						s = append(s, n.R, n.G, n.B, n.A)
					}
				} else {
					n, ok := c.(color.NRGBA)
					if !ok {
						return nil, fmt.Errorf("unexpected colour type %T", c)
					}
					if l.Colors == 2 {
						s = append(s, uint16(n.R), uint16(n.A))
					} else {
						s = append(s, uint16(n.R), uint16(n.G), uint16(n.B), uint16(n.A))
					}
				}
			case 3:
				if l.BPC == 16 {
					n, ok := c.(color.RGBA64)
					if !ok {
						return nil, fmt.Errorf("unexpected colour type %T", c)
					}
					s = append(s, n.R, n.G, n.B)
				} else {
					n, ok := c.(color.RGBA)
					if !ok {
						return nil, fmt.Errorf("unexpected colour type %T", c)
					}
					s = append(s, uint16(n.R), uint16(n.G), uint16(n.B))
				}
			}
		}
		putSamples(out[y*rb:(y+1)*rb], l.BPC, s)
	}
	return out, nil
}

// PNGInfo is what ExtractIDAT reads from the IHDR chunk.
type PNGInfo struct {
	Width, Height int
	BitDepth      int
	ColorType     int
	Interlace     int
	IDATChunks    int
}

// Layout returns the PDF sample layout of the image data.
func (p PNGInfo) Layout() Layout {
	colors := map[int]int{0: 1, 2: 3, 3: 1, 4: 2, 6: 4}[p.ColorType]
	return Layout{Colors: colors, BPC: p.BitDepth, Columns: p.Width}
}

// ExtractIDAT parses the chunk structure of a PNG file (CRCs verified) and
// returns the concatenated IDAT payloads: a zlib stream of filtered rows.
func ExtractIDAT(file []byte) ([]byte, PNGInfo, error) {
	var info PNGInfo
	if !bytes.HasPrefix(file, pngSig) {
		return nil, info, errors.New("png: bad signature")
	}
	p := len(pngSig)
	var idat []byte
	for {
		if p+12 > len(file) {
			return nil, info, errors.New("png: truncated chunk")
		}
		n := int(binary.BigEndian.Uint32(file[p:]))
		typ := string(file[p+4 : p+8])
		if p+12+n > len(file) {
			return nil, info, errors.New("png: truncated chunk data")
		}
		data := file[p+8 : p+8+n]
		if crc32.ChecksumIEEE(file[p+4:p+8+n]) != binary.BigEndian.Uint32(file[p+8+n:]) {
			return nil, info, errors.New("png: bad CRC")
		}
		p += 12 + n
		switch typ {
		case "IHDR":
			if n != 13 {
				return nil, info, errors.New("png: bad IHDR")
			}
			info.Width = int(binary.BigEndian.Uint32(data[0:]))
			info.Height = int(binary.BigEndian.Uint32(data[4:]))
			info.BitDepth = int(data[8])
			info.ColorType = int(data[9])
			info.Interlace = int(data[12])
		case "IDAT":
			idat = append(idat, data...)
			info.IDATChunks++
		case "IEND":
			return idat, info, nil
		}
	}
}

// PNGEncode encodes img with image/png at the given compression level.
func PNGEncode(img image.Image, level png.CompressionLevel) ([]byte, error) {
	var buf bytes.Buffer
	enc := png.Encoder{CompressionLevel: level}
	if err := enc.Encode(&buf, img); err != nil {
		return nil, err
	}
	return buf.Bytes(), nil
}

// ---------------------------------------------------------------------------
// CCITT (ITU-T T.4 / T.6) through golang.org/x/image/ccitt (decoder only)

// CCITTParams selects the variant.  x/image's Group 3 reader handles the
// one-dimensional coding with an EOL code in front of every row.
type CCITTParams struct {
	Group4   bool
	Columns  int
	Rows     int  // < 0: detect the height from the end-of-block code
	BlackIs1 bool // PDF /BlackIs1: x/image calls this Invert
	Align    bool // rows start on byte boundaries
}

// CCITTDecode decodes with golang.org/x/image/ccitt.  The result has one bit
// per pixel, rows padded to bytes with zero bits.
func CCITTDecode(enc []byte, p CCITTParams) ([]byte, error) {
	sf := ccitt.Group3
	if p.Group4 {
		sf = ccitt.Group4
	}
	h := p.Rows
	if h < 0 {
		h = ccitt.AutoDetectHeight
	}
	r := ccitt.NewReader(bytes.NewReader(enc), ccitt.MSB, sf, p.Columns, h,
		&ccitt.Options{Invert: p.BlackIs1, Align: p.Align})
	out, err := io.ReadAll(r)
	if err != nil {
		return out, err
	}
	return out, nil
}
