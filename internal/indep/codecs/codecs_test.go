package codecs

import (
	"bytes"
	"image"
	"image/png"
	"math/rand"
	"testing"
)

// The reference codecs are trusted only as far as these triangles close:
// reference encoder against reference decoder, and both against the
// standard library / x/image where an implementation exists there.

type rndChooser struct{ r *rand.Rand }

func (c rndChooser) Intn(n int) int { return c.r.Intn(n) }

func testData(r *rand.Rand) [][]byte {
	var out [][]byte
	out = append(out, nil, []byte{0}, []byte{0, 0}, []byte{1, 2, 3}, bytes.Repeat([]byte{7}, 300))
	for i := 0; i < 40; i++ {
		n := r.Intn(3000)
		b := make([]byte, n)
		switch i % 4 {
		case 0:
			r.Read(b)
		case 1:
			for j := range b {
				b[j] = byte(r.Intn(3))
			}
		case 2:
			for j := 0; j < n; {
				l, v := 1+r.Intn(300), byte(r.Intn(256))
				for k := 0; k < l && j < n; k++ {
					b[j] = v
					j++
				}
			}
		case 3:
			for j := range b {
				b[j] = byte(j / 7)
			}
		}
		out = append(out, b)
	}
	big := make([]byte, 20000)
	r.Read(big)
	out = append(out, big)
	return out
}

func TestLZWTriangles(t *testing.T) {
	r := rand.New(rand.NewSource(1))
	for i, d := range testData(r) {
		for _, early := range []bool{false, true} {
			for _, noClear := range []bool{false, true} {
				for _, clearAfter := range []int{0, 100} {
					enc := LZWEncode(d, LZWOptions{EarlyChange: early, NoFirstClear: noClear, ClearAfter: clearAfter})
					got, st, err := LZWDecode(enc, early)
					if err != nil || !bytes.Equal(got, d) {
						t.Fatalf("case %d early=%v: reference round trip failed: %v", i, early, err)
					}
					if len(d) == 20000 && clearAfter == 0 && (st.MaxWidth != 12 || st.Clears == 0) {
						t.Fatalf("big case: stats %+v", st)
					}
					var ext []byte
					if early {
						ext, err = LZWDecodeTIFF(enc)
					} else {
						ext, err = LZWDecodeStd(enc)
					}
					if err != nil || !bytes.Equal(ext, d) {
						t.Fatalf("case %d early=%v noClear=%v clearAfter=%d: external decoder disagrees: %v (%d vs %d bytes)", i, early, noClear, clearAfter, err, len(ext), len(d))
					}
				}
			}
		}
		got, _, err := LZWDecode(LZWEncodeStd(d), false)
		if err != nil || !bytes.Equal(got, d) {
			t.Fatalf("case %d: reference decoder on compress/lzw output: %v", i, err)
		}
	}
}

func TestSimpleCodecs(t *testing.T) {
	r := rand.New(rand.NewSource(2))
	c := rndChooser{r}
	for i, d := range testData(r) {
		for style := 0; style < 3; style++ {
			got, err := RunLengthDecode(RunLengthEncode(d, style, c))
			if err != nil || !bytes.Equal(got, d) {
				t.Fatalf("case %d style %d: runlength: %v", i, style, err)
			}
		}
		for _, ch := range []Chooser{nil, c} {
			got, err := ASCIIHexDecode(ASCIIHexEncode(d, ch))
			if err != nil || !bytes.Equal(got, d) {
				t.Fatalf("case %d: asciihex: %v", i, err)
			}
			got, err = ASCII85Decode(ASCII85Encode(d, ch))
			if err != nil || !bytes.Equal(got, d) {
				t.Fatalf("case %d: ascii85: %v", i, err)
			}
		}
		got, err := ZlibDecode(ZlibEncode(d, 6))
		if err != nil || !bytes.Equal(got, d) {
			t.Fatalf("case %d: zlib: %v", i, err)
		}
	}
}

func TestPredictors(t *testing.T) {
	r := rand.New(rand.NewSource(3))
	for i := 0; i < 400; i++ {
		l := Layout{Colors: 1 + r.Intn(5), BPC: []int{1, 2, 4, 8, 16}[r.Intn(5)], Columns: 1 + r.Intn(20)}
		rows := r.Intn(6)
		d := make([]byte, rows*l.RowBytes())
		r.Read(d)
		if i%3 == 0 {
			for j := range d {
				d[j] = byte(j)
			}
		}
		enc, err := PNGPredictEncode(d, l, func(int) byte { return byte(r.Intn(5)) })
		if err != nil {
			t.Fatal(err)
		}
		got, err := PNGPredictDecode(enc, l, nil)
		if err != nil || !bytes.Equal(got, d) {
			t.Fatalf("png predictor %+v: %v", l, err)
		}
		enc, err = TIFFPredictEncode(d, l)
		if err != nil {
			t.Fatal(err)
		}
		got, err = TIFFPredictDecode(enc, l)
		if err != nil || !bytes.Equal(got, d) {
			t.Fatalf("tiff predictor %+v: %v", l, err)
		}

		// reference PNG filter + zlib inside a PNG container -> image/png
		if _, ok := PNGColorType(l.Colors, l.BPC); ok && rows > 0 {
			for j := l.RowBytes() - 1; j < len(d); j += l.RowBytes() {
				d[j] &= l.PadMask()
			}
			enc, _ := PNGPredictEncode(d, l, func(int) byte { return byte(r.Intn(5)) })
			file, err := BuildPNG(l.Columns, rows, l, ZlibEncode(enc, 6), r.Intn(50))
			if err != nil {
				t.Fatal(err)
			}
			pix, err := PNGPixels(file, l)
			if err != nil || !bytes.Equal(pix, d) {
				t.Fatalf("image/png on reference filter output %+v rows %d: %v", l, rows, err)
			}
			idat, info, err := ExtractIDAT(file)
			if err != nil || info.Layout() != l || info.Height != rows {
				t.Fatalf("ExtractIDAT: %v %+v", err, info)
			}
			raw, err := ZlibDecode(idat)
			if err != nil || !bytes.Equal(raw, enc) {
				t.Fatalf("ExtractIDAT payload: %v", err)
			}
		}
	}
}

func TestPNGEncoderTriangle(t *testing.T) {
	r := rand.New(rand.NewSource(4))
	for i := 0; i < 60; i++ {
		w, h := 1+r.Intn(40), 1+r.Intn(12)
		img := image.NewNRGBA(image.Rect(0, 0, w, h))
		for j := range img.Pix {
			img.Pix[j] = byte(j*3) + byte(r.Intn(4))
		}
		file, err := PNGEncode(img, png.DefaultCompression)
		if err != nil {
			t.Fatal(err)
		}
		idat, info, err := ExtractIDAT(file)
		if err != nil {
			t.Fatal(err)
		}
		raw, err := ZlibDecode(idat)
		if err != nil {
			t.Fatal(err)
		}
		used := make([]int, 5)
		pix, err := PNGPredictDecode(raw, info.Layout(), used)
		if err != nil || !bytes.Equal(pix, img.Pix) {
			t.Fatalf("reference un-filter on image/png output: %v", err)
		}
	}
}
