package codecs

import (
	"errors"
	"fmt"
)

// Layout is the sample layout the predictors work on (Table 8 of ISO 32000-1).
type Layout struct {
	Colors  int // samples per pixel
	BPC     int // bits per sample: 1, 2, 4, 8, 16
	Columns int // pixels per row
}

// RowBytes is the number of bytes of one row of samples.
func (l Layout) RowBytes() int { return (l.Colors*l.BPC*l.Columns + 7) / 8 }

// pixelBytes is the PNG "bpp": bytes per complete pixel, rounded up to 1.
func (l Layout) pixelBytes() int {
	n := (l.Colors*l.BPC + 7) / 8
	if n < 1 {
		n = 1
	}
	return n
}

// PadMask returns the mask of the data bits in the last byte of a row
// (0xFF if the row has no padding bits).
func (l Layout) PadMask() byte {
	used := l.Colors * l.BPC * l.Columns % 8
	if used == 0 {
		return 0xFF
	}
	return byte(0xFF << (8 - used))
}

func paeth(a, b, c byte) byte {
	// PNG specification, section 9.4
	p := int(a) + int(b) - int(c)
	pa, pb, pc := p-int(a), p-int(b), p-int(c)
	if pa < 0 {
		pa = -pa
	}
	if pb < 0 {
		pb = -pb
	}
	if pc < 0 {
		pc = -pc
	}
	switch {
	case pa <= pb && pa <= pc:
		return a
	case pb <= pc:
		return b
	}
	return c
}

// pngPredict returns the prediction for byte i of cur, given the
// reconstructed bytes of the current row (raw) and of the row above (up,
// all zero for the first row).
func pngPredict(ft byte, raw, up []byte, i, bpp int) (byte, error) {
	var a, b, c byte
	if i >= bpp {
		a = raw[i-bpp]
		c = up[i-bpp]
	}
	b = up[i]
	switch ft {
	case 0:
		return 0, nil
	case 1:
		return a, nil
	case 2:
		return b, nil
	case 3:
		return byte((int(a) + int(b)) / 2), nil
	case 4:
		return paeth(a, b, c), nil
	}
	return 0, fmt.Errorf("png predictor: invalid filter type %d", ft)
}

// PNGPredictEncode applies the PNG filters: every row of data is prefixed by
// a filter-type byte, chosen by choose(row) in 0..4.  len(data) must be a
// multiple of the row length.
func PNGPredictEncode(data []byte, l Layout, choose func(row int) byte) ([]byte, error) {
	rb := l.RowBytes()
	if rb == 0 || len(data)%rb != 0 {
		return nil, errors.New("png predictor: data is not a whole number of rows")
	}
	bpp := l.pixelBytes()
	up := make([]byte, rb)
	var out []byte
	for r := 0; r*rb < len(data); r++ {
		raw := data[r*rb : (r+1)*rb]
		ft := choose(r)
		out = append(out, ft)
		for i := range raw {
			p, err := pngPredict(ft, raw, up, i, bpp)
			if err != nil {
				return nil, err
			}
			out = append(out, raw[i]-p)
		}
		up = raw
	}
	return out, nil
}

// PNGPredictDecode undoes the PNG filters.  The filter types found are
// counted in used (if non-nil, length 5).
func PNGPredictDecode(enc []byte, l Layout, used []int) ([]byte, error) {
	rb := l.RowBytes()
	if rb == 0 || len(enc)%(rb+1) != 0 {
		return nil, fmt.Errorf("png predictor: %d bytes are not a whole number of rows of %d+1 bytes", len(enc), rb)
	}
	bpp := l.pixelBytes()
	up := make([]byte, rb)
	var out []byte
	for p := 0; p < len(enc); p += rb + 1 {
		ft := enc[p]
		src := enc[p+1 : p+1+rb]
		raw := make([]byte, rb)
		for i := range src {
			pr, err := pngPredict(ft, raw, up, i, bpp)
			if err != nil {
				return nil, err
			}
			raw[i] = src[i] + pr
		}
		if used != nil {
			used[ft]++
		}
		out = append(out, raw...)
		up = raw
	}
	return out, nil
}

// samples unpacks n samples of bpc bits each (MSB first).
func samples(row []byte, bpc, n int) []uint16 {
	out := make([]uint16, n)
	for i := range out {
		var v uint16
		for b := 0; b < bpc; b++ {
			bit := i*bpc + b
			v = v<<1 | uint16(row[bit/8]>>(7-bit%8)&1)
		}
		out[i] = v
	}
	return out
}

// putSamples packs samples into row; bits beyond the last sample are kept.
func putSamples(row []byte, bpc int, s []uint16) {
	for i, v := range s {
		for b := 0; b < bpc; b++ {
			bit := i*bpc + b
			mask := byte(1) << (7 - bit%8)
			if v>>(bpc-1-b)&1 != 0 {
				row[bit/8] |= mask
			} else {
				row[bit/8] &^= mask
			}
		}
	}
}

// tiffPredict applies (dir=-1) or undoes (dir=+1) TIFF predictor 2:
// horizontal differencing of each colour component, modulo 2^BPC.  Padding
// bits at the end of each row are passed through.
func tiffPredict(data []byte, l Layout, dir int) ([]byte, error) {
	rb := l.RowBytes()
	if rb == 0 || len(data)%rb != 0 {
		return nil, errors.New("tiff predictor: data is not a whole number of rows")
	}
	out := append([]byte{}, data...)
	mask := uint16(1)<<l.BPC - 1
	n := l.Colors * l.Columns
	for p := 0; p < len(out); p += rb {
		row := out[p : p+rb]
		s := samples(row, l.BPC, n)
		if dir < 0 {
			for i := n - 1; i >= l.Colors; i-- {
				s[i] = (s[i] - s[i-l.Colors]) & mask
			}
		} else {
			for i := l.Colors; i < n; i++ {
				s[i] = (s[i] + s[i-l.Colors]) & mask
			}
		}
		putSamples(row, l.BPC, s)
	}
	return out, nil
}

// TIFFPredictEncode applies TIFF predictor 2.
func TIFFPredictEncode(data []byte, l Layout) ([]byte, error) { return tiffPredict(data, l, -1) }

// TIFFPredictDecode undoes TIFF predictor 2.
func TIFFPredictDecode(enc []byte, l Layout) ([]byte, error) { return tiffPredict(enc, l, +1) }
