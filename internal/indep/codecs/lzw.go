package codecs

import (
	"bytes"
	stdlzw "compress/lzw"
	"errors"
	"fmt"
	"io"

	tifflzw "golang.org/x/image/tiff/lzw"
)

// LZW as used by PDF (7.4.4): codes are packed MSB first, 0..255 are literals,
// 256 is clear-table, 257 is EOD, table entries start at 258.  The code width
// starts at 9 bits and grows up to 12 bits.  With EarlyChange=1 (the PDF
// default) the first 10-bit code is the one which follows the creation of
// table entry 511 (likewise 1023, 2047); with EarlyChange=0 the change is
// postponed as long as possible, i.e. until entry 512 (1024, 2048) exists.

const (
	lzwClear = 256
	lzwEOD   = 257
	lzwFirst = 258
)

type bitWriter struct {
	buf  []byte
	acc  uint64
	nacc uint
}

func (b *bitWriter) write(code, width uint) {
	b.acc = b.acc<<width | uint64(code)
	b.nacc += width
	for b.nacc >= 8 {
		b.buf = append(b.buf, byte(b.acc>>(b.nacc-8)))
		b.nacc -= 8
	}
}

func (b *bitWriter) flush() {
	if b.nacc > 0 {
		b.buf = append(b.buf, byte(b.acc<<(8-b.nacc)))
		b.nacc = 0
	}
}

// LZWOptions are the free choices of the reference encoder.
type LZWOptions struct {
	EarlyChange  bool
	NoFirstClear bool // do not start with a clear-table code
	// ClearAfter > 0: emit an additional clear-table code after that many
	// table entries have been created (must be < 3800 to have an effect).
	ClearAfter int
}

// LZWEncode is the reference encoder.
func LZWEncode(data []byte, opt LZWOptions) []byte {
	early := 0
	if opt.EarlyChange {
		early = 1
	}
	var bw bitWriter
	width := uint(9)
	next := lzwFirst
	// The table maps (code of the string w, next byte c) to the code of the
	// string wc; w itself is only kept as its code (-1: empty).
	type key struct {
		prefix int
		c      byte
	}
	table := map[key]int{}
	reset := func() {
		width = 9
		next = lzwFirst
		table = map[key]int{}
	}
	if !opt.NoFirstClear {
		bw.write(lzwClear, width)
	}
	w := -1
	for _, c := range data {
		if w < 0 {
			w = int(c)
			continue
		}
		if code, ok := table[key{w, c}]; ok {
			w = code
			continue
		}
		bw.write(uint(w), width)
		table[key{w, c}] = next
		next++
		// the entry just created is next-1
		if next-1+early == 1<<width && width < 12 {
			width++
		}
		w = int(c)
		full := next-1+early == 4095
		if full || (opt.ClearAfter > 0 && next-lzwFirst >= opt.ClearAfter) {
			bw.write(lzwClear, width)
			reset()
		}
	}
	if w >= 0 {
		bw.write(uint(w), width)
		// the decoder creates one more entry when it sees the next code
		next++
		if next-1+early == 1<<width && width < 12 {
			width++
		}
	}
	bw.write(lzwEOD, width)
	bw.flush()
	return bw.buf
}

// LZWPrefixCodes returns, for every prefix length n = 0..len(data), the
// number of data codes between the last clear-table code and EOD in the code
// stream an encoder which clears only when the table is full writes for
// data[:n], and the number of such clears.  (The phrase structure of LZW
// does not depend on EarlyChange; the point at which the table is full does.)
func LZWPrefixCodes(data []byte, earlyChange bool) (tail []int, clears []int) {
	early := 0
	if earlyChange {
		early = 1
	}
	tail = make([]int, len(data)+1)
	clears = make([]int, len(data)+1)
	table := map[string]int{}
	next := lzwFirst
	emitted, nclear := 0, 0
	var w []byte
	for i, c := range data {
		wc := append(append([]byte{}, w...), c)
		if _, ok := table[string(wc)]; ok || len(wc) == 1 {
			w = wc
		} else {
			emitted++
			table[string(wc)] = next
			next++
			w = []byte{c}
			if next-1+early == 4095 {
				table = map[string]int{}
				next = lzwFirst
				emitted = 0
				nclear++
			}
		}
		tail[i+1] = emitted + 1 // the pending phrase is written at the end
		clears[i+1] = nclear
	}
	return tail, clears
}

// LZWStats describes what a code stream exercised.
type LZWStats struct {
	MaxWidth int // widest code read (9..12)
	Clears   int // clear-table codes other than a leading one
	Codes    int
	Widths   [13]int // number of codes read at each width
	// MaxString is the length of the longest table string a code stood for.
	MaxString int

	// the end of the stream
	TailCodes     int // data codes between the last clear-table code and EOD
	LastDataWidth int // width of the last data code (0: none)
	EODWidth      int // width of the EOD code
}

// EODAtWidthBoundary reports whether the last data code was the one which
// made the code width grow, so that EOD is the first code of the new width.
func (st LZWStats) EODAtWidthBoundary() bool {
	return st.TailCodes > 0 && st.EODWidth > st.LastDataWidth
}

// LZWDecode is the reference decoder.  The stream must end with EOD.
func LZWDecode(enc []byte, earlyChange bool) ([]byte, LZWStats, error) {
	var st LZWStats
	early := 0
	if earlyChange {
		early = 1
	}
	var out []byte
	table := make([][]byte, 4096)
	for i := 0; i < 256; i++ {
		table[i] = []byte{byte(i)}
	}
	width := uint(9)
	next := lzwFirst
	var prev []byte
	pos := uint(0) // bit position
	total := uint(len(enc)) * 8
	for {
		if pos+width > total {
			return out, st, errors.New("lzw: missing EOD code")
		}
		code := 0
		for i := uint(0); i < width; i++ {
			bit := enc[(pos+i)/8] >> (7 - (pos+i)%8) & 1
			code = code<<1 | int(bit)
		}
		pos += width
		st.Codes++
		st.Widths[width]++
		if int(width) > st.MaxWidth {
			st.MaxWidth = int(width)
		}
		switch {
		case code == lzwClear:
			if st.Codes > 1 {
				st.Clears++
			}
			width = 9
			next = lzwFirst
			prev = nil
			st.TailCodes, st.LastDataWidth = 0, 0
			continue
		case code == lzwEOD:
			st.EODWidth = int(width)
			if rest := total - pos; rest >= 8 {
				return out, st, fmt.Errorf("lzw: %d bytes after the EOD code", rest/8)
			}
			return out, st, nil
		}
		var cur []byte
		switch {
		case code < 256:
			cur = table[code]
		case code < next:
			cur = table[code]
		case code == next && prev != nil:
			cur = append(append([]byte{}, prev...), prev[0])
		default:
			return out, st, fmt.Errorf("lzw: invalid code %d (next free entry %d)", code, next)
		}
		out = append(out, cur...)
		if len(cur) > st.MaxString {
			st.MaxString = len(cur)
		}
		st.TailCodes++
		st.LastDataWidth = int(width)
		if prev != nil && next < 4096 {
			table[next] = append(append([]byte{}, prev...), cur[0])
			next++
		}
		prev = cur
		// The encoder is one entry ahead of the decoder: it has already
		// created entry "next".
		if next+early == 1<<width && width < 12 {
			width++
		}
	}
}

// LZWDecodeStd decodes with compress/lzw (MSB first, 8-bit literals), which
// implements EarlyChange=0.
func LZWDecodeStd(enc []byte) ([]byte, error) {
	r := stdlzw.NewReader(bytes.NewReader(enc), stdlzw.MSB, 8)
	defer r.Close()
	return io.ReadAll(r)
}

// LZWEncodeStd encodes with compress/lzw (EarlyChange=0, no leading clear).
func LZWEncodeStd(data []byte) []byte {
	var buf bytes.Buffer
	w := stdlzw.NewWriter(&buf, stdlzw.MSB, 8)
	w.Write(data)
	w.Close()
	return buf.Bytes()
}

// LZWDecodeTIFF decodes with golang.org/x/image/tiff/lzw, which implements
// the TIFF variant of LZW: EarlyChange=1.
func LZWDecodeTIFF(enc []byte) ([]byte, error) {
	r := tifflzw.NewReader(bytes.NewReader(enc), tifflzw.MSB, 8)
	defer r.Close()
	return io.ReadAll(r)
}
