// Package codecs holds reference implementations of the PDF stream codecs,
// written from ISO 32000-1 section 7.4 (and the PNG / TIFF 6.0 specifications
// for the predictors), plus thin adapters around independent third-party
// implementations which are available offline (compress/zlib, compress/lzw,
// encoding/ascii85, image/png, golang.org/x/image/tiff/lzw,
// golang.org/x/image/ccitt).
//
// Nothing in this package imports seehuhn.de/go/pdf.  The codecs work on
// whole byte slices; they are meant to be obviously right, not fast.
package codecs

import (
	"bytes"
	"encoding/ascii85"
	"errors"
	"fmt"
)

// ---------------------------------------------------------------------------
// RunLengthDecode (7.4.5)

// RunLengthDecode decodes data up to the EOD marker (128).  Missing EOD is an
// error, since the encoder must write one.
func RunLengthDecode(enc []byte) ([]byte, error) {
	var out []byte
	i := 0
	for {
		if i >= len(enc) {
			return out, errors.New("runlength: missing EOD marker")
		}
		l := int(enc[i])
		i++
		switch {
		case l == 128:
			if i != len(enc) {
				return out, fmt.Errorf("runlength: %d bytes after the EOD marker", len(enc)-i)
			}
			return out, nil
		case l < 128:
			n := l + 1
			if i+n > len(enc) {
				return out, errors.New("runlength: truncated literal run")
			}
			out = append(out, enc[i:i+n]...)
			i += n
		default:
			if i >= len(enc) {
				return out, errors.New("runlength: truncated repeat run")
			}
			n := 257 - l
			for k := 0; k < n; k++ {
				out = append(out, enc[i])
			}
			i++
		}
	}
}

// RunLength encoder styles.
const (
	RLLiteral = iota // literal runs only, maximal length
	RLGreedy         // repeat runs for every repetition of length >= 2
	RLMixed          // run lengths chosen by the chooser
)

// Chooser supplies the free choices of an encoder.  Intn returns a value in
// [0,n).
type Chooser interface{ Intn(n int) int }

// RunLengthEncode encodes data in the given style and appends the EOD marker.
func RunLengthEncode(data []byte, style int, c Chooser) []byte {
	var out []byte
	i := 0
	for i < len(data) {
		// length of the repetition which starts at i
		rep := 1
		for i+rep < len(data) && data[i+rep] == data[i] && rep < 128 {
			rep++
		}
		useRep := false
		switch style {
		case RLGreedy:
			useRep = rep >= 2
		case RLMixed:
			useRep = rep >= 2 && c.Intn(2) == 0
			if useRep {
				rep = 2 + c.Intn(rep-1)
			}
		}
		if useRep {
			out = append(out, byte(257-rep), data[i])
			i += rep
			continue
		}
		// literal run
		n := len(data) - i
		if n > 128 {
			n = 128
		}
		switch style {
		case RLGreedy:
			// stop before the next repetition of length >= 2
			for k := 1; k < n; k++ {
				if i+k+1 < len(data) && data[i+k] == data[i+k+1] {
					n = k
					break
				}
			}
		case RLMixed:
			n = 1 + c.Intn(n)
		}
		out = append(out, byte(n-1))
		out = append(out, data[i:i+n]...)
		i += n
	}
	return append(out, 128)
}

// ---------------------------------------------------------------------------
// ASCIIHexDecode (7.4.2)

func isPDFSpace(c byte) bool {
	switch c {
	case 0, 9, 10, 12, 13, 32:
		return true
	}
	return false
}

// ASCIIHexDecode decodes up to the EOD marker '>'.
func ASCIIHexDecode(enc []byte) ([]byte, error) {
	var out []byte
	have := false
	var hi byte
	for i, c := range enc {
		var v byte
		switch {
		case c >= '0' && c <= '9':
			v = c - '0'
		case c >= 'a' && c <= 'f':
			v = c - 'a' + 10
		case c >= 'A' && c <= 'F':
			v = c - 'A' + 10
		case isPDFSpace(c):
			continue
		case c == '>':
			if have {
				out = append(out, hi<<4)
			}
			for _, d := range enc[i+1:] {
				if !isPDFSpace(d) {
					return out, errors.New("asciihex: data after the EOD marker")
				}
			}
			return out, nil
		default:
			return out, fmt.Errorf("asciihex: invalid character %q", c)
		}
		if have {
			out = append(out, hi<<4|v)
			have = false
		} else {
			hi, have = v, true
		}
	}
	return out, errors.New("asciihex: missing EOD marker")
}

// ASCIIHexEncode encodes data.  If c is non-nil, the case of each digit is
// chosen freely, white space is inserted at random places, and a final zero
// nibble is dropped ("odd number of digits") half of the time.
func ASCIIHexEncode(data []byte, c Chooser) []byte {
	const lower = "0123456789abcdef"
	const upper = "0123456789ABCDEF"
	spaces := []byte{0, 9, 10, 12, 13, 32}
	var out []byte
	digit := func(v byte) {
		if c != nil && c.Intn(2) == 0 {
			out = append(out, upper[v])
		} else {
			out = append(out, lower[v])
		}
		if c != nil && c.Intn(8) == 0 {
			out = append(out, spaces[c.Intn(len(spaces))])
		}
	}
	for i, b := range data {
		digit(b >> 4)
		if i == len(data)-1 && b&15 == 0 && c != nil && c.Intn(2) == 0 {
			break // odd number of digits: the missing one counts as 0
		}
		digit(b & 15)
	}
	return append(out, '>')
}

// ---------------------------------------------------------------------------
// ASCII85Decode (7.4.3): framing around encoding/ascii85

// ASCII85Decode removes the EOD marker "~>" and decodes the rest with
// encoding/ascii85.
func ASCII85Decode(enc []byte) ([]byte, error) {
	end := bytes.Index(enc, []byte("~>"))
	if end < 0 {
		return nil, errors.New("ascii85: missing EOD marker")
	}
	for _, d := range enc[end+2:] {
		if !isPDFSpace(d) {
			return nil, errors.New("ascii85: data after the EOD marker")
		}
	}
	body := enc[:end]
	out := make([]byte, len(body)*4+8) // 'z' expands one character to four bytes
	n, _, err := ascii85.Decode(out, body, true)
	if err != nil {
		return nil, err
	}
	return out[:n], nil
}

// ASCII85Encode encodes with encoding/ascii85 and appends "~>".  If c is
// non-nil, white space is inserted at random places between the characters.
func ASCII85Encode(data []byte, c Chooser) []byte {
	buf := make([]byte, ascii85.MaxEncodedLen(len(data)))
	n := ascii85.Encode(buf, data)
	buf = buf[:n]
	if c == nil {
		return append(buf, '~', '>')
	}
	spaces := []byte{0, 9, 10, 12, 13, 32}
	var out []byte
	for _, b := range buf {
		out = append(out, b)
		if c.Intn(10) == 0 {
			out = append(out, spaces[c.Intn(len(spaces))])
		}
	}
	return append(out, '~', '>')
}
