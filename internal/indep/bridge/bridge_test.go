package bridge

import (
	"bytes"
	"fmt"
	"testing"

	"seehuhn.de/go/pdf"
	"seehuhn.de/go/pdf/verif/internal/indep/strict"
	"seehuhn.de/go/pdf/verif/internal/indep/syntax"
	"seehuhn.de/go/pdf/verif/internal/vt"
)

// nonSeek hides the Seek method of a buffer, so that the writer has to use
// indirect /Length objects.
type nonSeek struct{ b *bytes.Buffer }

func (n nonSeek) Write(p []byte) (int, error) { return n.b.Write(p) }

// TestStrictOnLibraryFiles validates files written by the library's own
// Writer with the independent strict parser and compares the values.
func TestStrictOnLibraryFiles(t *testing.T) {
	versions := []pdf.Version{pdf.V1_0, pdf.V1_4, pdf.V1_5, pdf.V1_7, pdf.V2_0}
	for _, v := range versions {
		for _, human := range []bool{false, true} {
			for _, seekable := range []bool{true, false} {
				name := fmt.Sprintf("%s-human=%v-seek=%v", v, human, seekable)
				t.Run(name, func(t *testing.T) {
					buf := &bytes.Buffer{}
					var out interface{ Write([]byte) (int, error) } = buf
					if !seekable {
						out = nonSeek{buf}
					}
					w, err := pdf.NewWriter(out, v, &pdf.WriterOptions{HumanReadable: human})
					if err != nil {
						t.Fatal(err)
					}
					want := map[uint32]pdf.Object{}
					streams := map[uint32][]byte{}
					pages := w.Alloc()
					w.GetMeta().Catalog.Pages = pages
					put := func(ref pdf.Reference, obj pdf.Object) {
						if err := w.Put(ref, obj); err != nil {
							t.Fatal(err)
						}
						want[ref.Number()] = obj
					}
					put(pages, pdf.Dict{"Type": pdf.Name("Pages"), "Kids": pdf.Array{}, "Count": pdf.Integer(0)})
					put(w.Alloc(), pdf.Array{pdf.Integer(1), pdf.Real(2.5), pdf.String("a(b)c\\\r\n"), pdf.Name("N m#"), nil, pdf.Boolean(true), pdf.NewReference(2, 0)})
					put(w.Alloc(), pdf.String("\x00\xff binary"))
					_ = w.Alloc() // never written
					put(pdf.NewReference(20, 3), pdf.Integer(-7))
					// a stream
					sref := w.Alloc()
					body := []byte("stream body with endstream\nendstream\r\nand endobj inside\r\n")
					sw, err := w.OpenStream(sref, pdf.Dict{"K": pdf.Name("V")})
					if err != nil {
						t.Fatal(err)
					}
					sw.Write(body[:10])
					sw.Write(body[10:])
					if err := sw.Close(); err != nil {
						t.Fatal(err)
					}
					want[sref.Number()] = pdf.Dict{"K": pdf.Name("V")}
					streams[sref.Number()] = body
					// a compressed stream
					if v >= pdf.V1_2 {
						fref := w.Alloc()
						sw, err = w.OpenStream(fref, pdf.Dict{}, pdf.FilterFlate{})
						if err != nil {
							t.Fatal(err)
						}
						big := bytes.Repeat([]byte("0123456789"), 500)
						sw.Write(big)
						if err := sw.Close(); err != nil {
							t.Fatal(err)
						}
						streams[fref.Number()] = big
					}
					var compressed []pdf.Reference
					if v >= pdf.V1_5 && !human {
						compressed = refsOf(w)
						refs := compressed
						objs := []pdf.Object{pdf.Dict{"A": pdf.Integer(1)}, pdf.Integer(5), pdf.Array{pdf.String("x"), pdf.Name("y")}}
						if err := w.WriteCompressed(refs, objs...); err != nil {
							t.Fatal(err)
						}
						for i, r := range refs {
							want[r.Number()] = objs[i]
						}
					}
					if err := w.Close(); err != nil {
						t.Fatal(err)
					}

					f, err := strict.Parse(buf.Bytes())
					if err != nil {
						t.Fatalf("strict parser rejects the file: %v\n%q", err, buf.Bytes())
					}
					ver, _ := v.ToString()
					if f.Version != ver {
						t.Errorf("version %q, want %q", f.Version, ver)
					}
					wantKind := "table"
					if v >= pdf.V1_5 && !human {
						wantKind = "stream"
					}
					if f.XRefKind != wantKind {
						t.Errorf("xref kind %q, want %q", f.XRefKind, wantKind)
					}
					for n, obj := range want {
						o := f.Objects[n]
						if o == nil {
							t.Fatalf("object %d missing", n)
						}
						got := o.Value
						if o.IsStream {
							got = got.Without("Length").Without("Filter").Without("DecodeParms")
						}
						if err := vt.EqObj(obj, ToPDF(got)); err != nil {
							t.Errorf("object %d: %v", n, err)
						}
						if !syntax.Equal(FromPDF(obj), got) {
							t.Errorf("object %d: FromPDF differs: %v vs %v", n, FromPDF(obj), got)
						}
					}
					for n, body := range streams {
						o := f.Objects[n]
						if o == nil || !o.IsStream {
							t.Fatalf("stream %d missing", n)
						}
						dec, err := strict.DecodeStream(o.StreamDict, o.RawStream)
						if err != nil || !bytes.Equal(dec, body) {
							t.Errorf("stream %d: decoded %d bytes (err %v), want %d", n, len(dec), err, len(body))
						}
						if !seekable {
							if l := o.StreamDict.Lookup("Length"); l.Kind != syntax.Ref && len(body) > 1024 {
								t.Logf("stream %d: /Length is %v on a non-seekable sink", n, l)
							}
						}
					}
					if f.Objects[20] == nil || f.Objects[20].Gen != 3 {
						t.Errorf("object 20 generation 3 not found")
					}
					if _, free := f.Free[6]; !free {
						t.Errorf("allocated but unwritten object 6 is not free: %v", f.Free)
					}
					if root := f.Trailer.Lookup("Root"); root.Kind != syntax.Ref {
						t.Errorf("trailer without /Root: %v", f.Trailer)
					}
					for i, r := range compressed {
						if o := f.Objects[r.Number()]; o == nil || o.InObjStm == 0 || o.Index != i {
							t.Errorf("object %d is not compressed at index %d: %+v", r.Number(), i, o)
						}
					}
					if len(compressed) == 0 && v >= pdf.V1_5 && !human {
						t.Error("no compressed objects")
					}
				})
			}
		}
	}
}

func refsOf(w *pdf.Writer) []pdf.Reference {
	return []pdf.Reference{w.Alloc(), w.Alloc(), w.Alloc()}
}

func TestRoundTrip(t *testing.T) {
	v := syntax.D("A", syntax.A(syntax.I(1), syntax.R(0.5), syntax.NullV(), syntax.S([]byte("x")), syntax.N("n"), syntax.RefTo(3, 1)), "B", syntax.B(true))
	if got := FromPDF(ToPDF(v)); !syntax.Equal(got, v) {
		t.Errorf("FromPDF(ToPDF(v)) = %v", got)
	}
	if got := FromGen(ToGen(v)); !syntax.Equal(got, v) {
		t.Errorf("FromGen(ToGen(v)) = %v", got)
	}
}
