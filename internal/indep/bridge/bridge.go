// Package bridge converts between the independent value type syntax.Value
// and the library's pdf.Object.  It is the only package below internal/indep
// which imports seehuhn.de/go/pdf.
package bridge

import (
	"math"

	"seehuhn.de/go/pdf"
	"seehuhn.de/go/pdf/verif/internal/gen"
	"seehuhn.de/go/pdf/verif/internal/indep/syntax"
)

// ToPDF converts a value to a library object.  For duplicate dictionary keys
// the first entry counts (as in syntax.Equal); null is nil.
func ToPDF(v syntax.Value) pdf.Object {
	switch v.Kind {
	case syntax.Null:
		return nil
	case syntax.Bool:
		return pdf.Boolean(v.Bool)
	case syntax.Int:
		return pdf.Integer(v.Int)
	case syntax.Real:
		return pdf.Real(v.Real)
	case syntax.Name:
		return pdf.Name(v.Bytes)
	case syntax.String:
		return pdf.String(append([]byte{}, v.Bytes...))
	case syntax.Ref:
		return pdf.NewReference(v.Num, v.Gen)
	case syntax.Array:
		a := make(pdf.Array, len(v.Arr))
		for i, e := range v.Arr {
			a[i] = ToPDF(e)
		}
		return a
	case syntax.Dict:
		d := make(pdf.Dict, len(v.Dict))
		for _, e := range v.Dict {
			if _, dup := d[pdf.Name(e.Key)]; !dup {
				d[pdf.Name(e.Key)] = ToPDF(e.Val)
			}
		}
		return d
	}
	panic("bridge: bad kind")
}

// FromPDF converts a library object to a value.  Dictionary keys are sorted,
// a *pdf.Stream is represented by its dictionary, nil arrays and dictionaries
// become null.
func FromPDF(obj pdf.Object) syntax.Value {
	switch x := obj.(type) {
	case nil:
		return syntax.NullV()
	case pdf.Boolean:
		return syntax.B(bool(x))
	case pdf.Integer:
		return syntax.I(int64(x))
	case pdf.Real:
		return syntax.R(float64(x))
	case pdf.Name:
		return syntax.Value{Kind: syntax.Name, Bytes: []byte(x)}
	case pdf.String:
		return syntax.S(x)
	case pdf.Reference:
		return syntax.RefTo(x.Number(), x.Generation())
	case pdf.Array:
		if x == nil {
			return syntax.NullV()
		}
		v := syntax.A()
		for _, e := range x {
			v.Arr = append(v.Arr, FromPDF(e))
		}
		return v
	case pdf.Dict:
		if x == nil {
			return syntax.NullV()
		}
		v := syntax.D()
		for _, k := range x.SortedKeys() {
			v.Dict = append(v.Dict, syntax.Entry{Key: []byte(k), Val: FromPDF(x[k])})
		}
		return v
	case *pdf.Stream:
		if x == nil {
			return syntax.NullV()
		}
		return FromPDF(x.Dict)
	}
	if obj != nil {
		return FromPDF(obj.AsPDF(0))
	}
	return syntax.NullV()
}

// FromGen converts a generated object tree.
func FromGen(o gen.O) syntax.Value {
	switch o.T {
	case "null", "", "nilarr", "nildict":
		return syntax.NullV()
	case "bool":
		return syntax.B(o.B)
	case "int":
		return syntax.I(o.I)
	case "real":
		return syntax.R(math.Float64frombits(o.F))
	case "name":
		return syntax.Value{Kind: syntax.Name, Bytes: append([]byte{}, o.S...)}
	case "str":
		return syntax.S(o.S)
	case "ref":
		return syntax.RefTo(o.N, o.G)
	case "arr":
		v := syntax.A()
		for _, e := range o.A {
			v.Arr = append(v.Arr, FromGen(e))
		}
		return v
	case "dict":
		v := syntax.D()
		for _, kv := range o.D {
			v.Dict = append(v.Dict, syntax.Entry{Key: append([]byte{}, kv.K...), Val: FromGen(kv.V)})
		}
		return v
	}
	panic("bridge: bad tag " + o.T)
}

// ToGen converts a value to a generated object tree.
func ToGen(v syntax.Value) gen.O {
	switch v.Kind {
	case syntax.Null:
		return gen.O{T: "null"}
	case syntax.Bool:
		return gen.O{T: "bool", B: v.Bool}
	case syntax.Int:
		return gen.O{T: "int", I: v.Int}
	case syntax.Real:
		return gen.O{T: "real", F: math.Float64bits(v.Real)}
	case syntax.Name:
		return gen.O{T: "name", S: gen.Hex(append([]byte{}, v.Bytes...))}
	case syntax.String:
		return gen.O{T: "str", S: gen.Hex(append([]byte{}, v.Bytes...))}
	case syntax.Ref:
		return gen.O{T: "ref", N: v.Num, G: v.Gen}
	case syntax.Array:
		o := gen.O{T: "arr"}
		for _, e := range v.Arr {
			o.A = append(o.A, ToGen(e))
		}
		return o
	case syntax.Dict:
		o := gen.O{T: "dict"}
		for _, e := range v.Dict {
			o.D = append(o.D, gen.KV{K: gen.Hex(append([]byte{}, e.Key...)), V: ToGen(e.Val)})
		}
		return o
	}
	panic("bridge: bad kind")
}
