package vt

import (
	"bytes"
	"fmt"
	"io"
	"math"

	"seehuhn.de/go/pdf"
)

// isNull reports whether obj stands for the PDF null object: a nil
// interface, a nil Array or a nil Dict.
func isNull(obj pdf.Object) bool {
	switch x := obj.(type) {
	case nil:
		return true
	case pdf.Array:
		return x == nil
	case pdf.Dict:
		return x == nil
	}
	return false
}

// EqObj compares two object trees using the normalisation the properties
// state: a nil dictionary entry counts as absent, a nil array or dictionary
// as null, the nil-ness of an empty string is ignored, reals are compared
// with ==.  It returns nil if the objects are equal and a description of the
// first difference otherwise.  Streams are not handled here.
func EqObj(want, got pdf.Object) error {
	return eqObj(want, got, "")
}

func eqObj(a, b pdf.Object, path string) error {
	if isNull(a) || isNull(b) {
		if isNull(a) && isNull(b) {
			return nil
		}
		return fmt.Errorf("at %q: want %s, got %s", path, show(a), show(b))
	}
	switch x := a.(type) {
	case pdf.Boolean:
		if y, ok := b.(pdf.Boolean); ok && x == y {
			return nil
		}
	case pdf.Integer:
		if y, ok := b.(pdf.Integer); ok && x == y {
			return nil
		}
	case pdf.Real:
		if y, ok := b.(pdf.Real); ok && (x == y) {
			return nil
		}
		// A Real holding an integral value is written as "12." and must come
		// back as Real; no Integer fallback here.
	case pdf.Name:
		if y, ok := b.(pdf.Name); ok && x == y {
			return nil
		}
	case pdf.String:
		if y, ok := b.(pdf.String); ok && bytes.Equal(x, y) {
			return nil
		}
	case pdf.Reference:
		if y, ok := b.(pdf.Reference); ok && x == y {
			return nil
		}
	case pdf.Array:
		y, ok := b.(pdf.Array)
		if !ok {
			break
		}
		if len(x) != len(y) {
			return fmt.Errorf("at %q: array length want %d, got %d", path, len(x), len(y))
		}
		for i := range x {
			if err := eqObj(x[i], y[i], fmt.Sprintf("%s[%d]", path, i)); err != nil {
				return err
			}
		}
		return nil
	case pdf.Dict:
		y, ok := b.(pdf.Dict)
		if !ok {
			break
		}
		for k, v := range x {
			if isNull(v) {
				if w, present := y[k]; present && !isNull(w) {
					return fmt.Errorf("at %q: key %q want absent/null, got %s", path, k, show(w))
				}
				continue
			}
			w, present := y[k]
			if !present {
				return fmt.Errorf("at %q: key %q missing", path, k)
			}
			if err := eqObj(v, w, path+"/"+string(k)); err != nil {
				return err
			}
		}
		for k, w := range y {
			if _, present := x[k]; !present && !isNull(w) {
				return fmt.Errorf("at %q: unexpected key %q = %s", path, k, show(w))
			}
		}
		return nil
	default:
		return fmt.Errorf("at %q: unsupported type %T", path, a)
	}
	return fmt.Errorf("at %q: want %s, got %s", path, show(a), show(b))
}

func show(obj pdf.Object) string {
	if obj == nil {
		return "null"
	}
	var s string
	switch x := obj.(type) {
	case pdf.String:
		s = fmt.Sprintf("String(%q)", []byte(x))
	case pdf.Name:
		s = fmt.Sprintf("Name(%q)", string(x))
	case pdf.Real:
		s = fmt.Sprintf("Real(%v|%016x)", float64(x), math.Float64bits(float64(x)))
	case pdf.Array:
		s = fmt.Sprintf("Array(len %d)", len(x))
	case pdf.Dict:
		s = fmt.Sprintf("Dict(len %d)", len(x))
	default:
		s = fmt.Sprintf("%T(%v)", obj, obj)
	}
	if len(s) > 200 {
		s = s[:200] + "..."
	}
	return s
}

// Show renders an object for messages.
func Show(obj pdf.Object) string { return show(obj) }

// ChunkSizes are the buffer sizes used for the second, piecewise read of
// decoded stream data (see ReadInChunks).
var ChunkSizes = []int{1, 2, 3, 5, 7, 15, 16, 17, 31, 33, 64, 100}

// ReadInChunks reads r to its end with Read calls of at most k bytes, the way
// io.ReadAll or io.Copy do: it stops at the first error, and io.EOF — with or
// without data — ends the data.  A reader that reports io.EOF while it still
// holds data loses that data here, as it would with any consumer that follows
// the io.Reader contract.
func ReadInChunks(r io.Reader, k int) ([]byte, error) {
	if k < 1 {
		k = 1
	}
	buf := make([]byte, k)
	var out []byte
	for {
		n, err := r.Read(buf)
		out = append(out, buf[:n]...)
		if err == io.EOF {
			return out, nil
		}
		if err != nil {
			return out, err
		}
	}
}
