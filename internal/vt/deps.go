package vt

// Blank imports pin the third-party modules the checks may use in go.mod,
// so that concurrent builds never need to rewrite it.
import (
	_ "github.com/xdg-go/stringprep"
	_ "golang.org/x/image/ccitt"
	_ "golang.org/x/image/tiff/lzw"
	_ "golang.org/x/text/unicode/norm"
)
