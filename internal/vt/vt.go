// Package vt is the shared plumbing of the verification harness: tier/seed
// environment, evidence counters, case hashing, sample capture, violation
// reporting and replay (de)serialisation.
package vt

import (
	"encoding/binary"
	"encoding/json"
	"fmt"
	"hash/fnv"
	"os"
	"path/filepath"
	"runtime/debug"
	"sort"
	"strconv"
	"sync"
	"testing"

	"pgregory.net/rapid"
)

// ---------------------------------------------------------------------------
// environment

// Tier returns "quick" or "thorough".
func Tier() string {
	if os.Getenv("VERIF_TIER") == "thorough" {
		return "thorough"
	}
	return "quick"
}

// Thorough reports whether the thorough tier is running.
func Thorough() bool { return Tier() == "thorough" }

// Scale returns q in the quick tier and th in the thorough tier.
func Scale(q, th int) int {
	if Thorough() {
		return th
	}
	return q
}

// Seed returns the seed for this process (never 0).
func Seed() uint64 {
	s, _ := strconv.ParseUint(os.Getenv("VERIF_PROC_SEED"), 10, 64)
	if s == 0 {
		s, _ = strconv.ParseUint(os.Getenv("VERIF_SEED"), 10, 64)
	}
	if s == 0 {
		s = 0x5EED
	}
	return s
}

// Shard returns the index of this process and the number of shards.
func Shard() (int, int) {
	i, _ := strconv.Atoi(os.Getenv("VERIF_SHARD"))
	n, _ := strconv.Atoi(os.Getenv("VERIF_NSHARDS"))
	if n <= 0 {
		n = 1
	}
	return i, n
}

// Mine reports whether item k of an enumeration belongs to this shard.
func Mine(k int) bool {
	i, n := Shard()
	return k%n == i
}

// Root returns the /verif directory.
func Root() string {
	if r := os.Getenv("VERIF_ROOT"); r != "" {
		return r
	}
	return "/verif"
}

// ---------------------------------------------------------------------------
// deterministic expander PRNG (splitmix64)

// Rand is a small deterministic PRNG used to expand bulk data from a seed
// that was drawn through rapid.
type Rand struct{ s uint64 }

// NewRand returns a PRNG with the given seed.
func NewRand(seed uint64) *Rand { return &Rand{s: seed} }

// Uint64 returns the next value.
func (r *Rand) Uint64() uint64 {
	r.s += 0x9E3779B97F4A7C15
	z := r.s
	z = (z ^ (z >> 30)) * 0xBF58476D1CE4E5B9
	z = (z ^ (z >> 27)) * 0x94D049BB133111EB
	return z ^ (z >> 31)
}

// Intn returns a value in [0,n).
func (r *Rand) Intn(n int) int {
	if n <= 0 {
		return 0
	}
	return int(r.Uint64() % uint64(n))
}

// Bytes fills a new slice of length n.
func (r *Rand) Bytes(n int) []byte {
	b := make([]byte, n)
	for i := 0; i < n; i += 8 {
		v := r.Uint64()
		for j := 0; j < 8 && i+j < n; j++ {
			b[i+j] = byte(v >> (8 * j))
		}
	}
	return b
}

// ---------------------------------------------------------------------------
// hashing

// HashBytes returns the FNV-64a hash of the concatenated parts (length
// prefixed, so that part boundaries matter).
func HashBytes(parts ...[]byte) uint64 {
	h := fnv.New64a()
	var l [8]byte
	for _, p := range parts {
		binary.LittleEndian.PutUint64(l[:], uint64(len(p)))
		h.Write(l[:])
		h.Write(p)
	}
	return h.Sum64()
}

// Hash returns the hash of the canonical JSON of v.
func Hash(v any) uint64 {
	b, err := json.Marshal(v)
	if err != nil {
		panic(err)
	}
	return HashBytes(b)
}

// ---------------------------------------------------------------------------
// statistics

const maxHashes = 1 << 20

// Stats collects what one job of one test process covered.
type Stats struct {
	mu sync.Mutex

	Property    string         `json:"property"`
	Job         string         `json:"job"`
	Evaluations int64          `json:"evaluations"`
	NonTrivial  int64          `json:"nontrivial"`
	Classes     map[string]int `json:"classes"`
	Excluded    map[string]int `json:"excluded"`
	Samples     []any          `json:"samples"`
	Exhaustive  string         `json:"exhaustive,omitempty"`
	Notes       []string       `json:"notes,omitempty"`
	HashCapped  bool           `json:"hash_capped,omitempty"`
	Extra       map[string]any `json:"extra,omitempty"`

	hashes    map[uint64]struct{}
	nsampled  int
	sampleRng *Rand
}

var (
	allMu    sync.Mutex
	allStats []*Stats
)

// NewStats creates and registers a statistics record.
func NewStats(property, job string) *Stats {
	s := &Stats{
		Property:  property,
		Job:       job,
		Classes:   map[string]int{},
		Excluded:  map[string]int{},
		hashes:    map[uint64]struct{}{},
		sampleRng: NewRand(Seed() ^ HashBytes([]byte(job))),
		Extra:     map[string]any{},
	}
	allMu.Lock()
	allStats = append(allStats, s)
	allMu.Unlock()
	return s
}

// Eval records one evaluated case.
func (s *Stats) Eval(hash uint64, nontrivial bool, classes ...string) {
	s.mu.Lock()
	defer s.mu.Unlock()
	s.Evaluations++
	for _, c := range classes {
		s.Classes[c]++
	}
	if nontrivial {
		s.NonTrivial++
		if len(s.hashes) < maxHashes {
			s.hashes[hash] = struct{}{}
		} else if _, ok := s.hashes[hash]; !ok {
			s.HashCapped = true
		}
	}
}

// Class adds n to a class counter.
func (s *Stats) Class(name string, n int) {
	s.mu.Lock()
	s.Classes[name] += n
	s.mu.Unlock()
}

// Exclude counts a case that was excluded because of a known finding.
func (s *Stats) Exclude(finding string) {
	s.mu.Lock()
	s.Excluded[finding]++
	s.mu.Unlock()
}

// Sample offers a case for the sample list: the first three are kept, later
// ones replace one of three reservoir slots.
func (s *Stats) Sample(v func() any) {
	s.mu.Lock()
	defer s.mu.Unlock()
	s.nsampled++
	switch {
	case len(s.Samples) < 6:
		s.Samples = append(s.Samples, v())
	default:
		k := s.sampleRng.Intn(s.nsampled)
		if k < 3 {
			s.Samples[3+k] = v()
		}
	}
}

// SetExhaustive marks the job as a complete enumeration of the described space.
func (s *Stats) SetExhaustive(desc string) {
	s.mu.Lock()
	s.Exhaustive = desc
	s.mu.Unlock()
}

// Note adds a free-text note to the evidence.
func (s *Stats) Note(format string, args ...any) {
	s.mu.Lock()
	s.Notes = append(s.Notes, fmt.Sprintf(format, args...))
	s.mu.Unlock()
}

// SetExtra stores an additional key in the evidence.
func (s *Stats) SetExtra(key string, v any) {
	s.mu.Lock()
	s.Extra[key] = v
	s.mu.Unlock()
}

// Flush writes all registered statistics to the file named by VERIF_STATS
// (JSON) and the hash sets to VERIF_STATS+".hashes" (binary).  Call it from
// TestMain after m.Run.
func Flush() {
	path := os.Getenv("VERIF_STATS")
	if path == "" {
		return
	}
	allMu.Lock()
	defer allMu.Unlock()
	type out struct {
		Stats []*Stats `json:"stats"`
	}
	var hashes []uint64
	for _, s := range allStats {
		s.mu.Lock()
		for h := range s.hashes {
			hashes = append(hashes, h^HashBytes([]byte(s.Job)))
		}
	}
	defer func() {
		for _, s := range allStats {
			s.mu.Unlock()
		}
	}()
	sort.Slice(hashes, func(i, j int) bool { return hashes[i] < hashes[j] })
	hb := make([]byte, 8*len(hashes))
	for i, h := range hashes {
		binary.LittleEndian.PutUint64(hb[8*i:], h)
	}
	_ = os.WriteFile(path+".hashes", hb, 0o644)
	b, err := json.Marshal(out{Stats: allStats})
	if err != nil {
		fmt.Fprintf(os.Stderr, "vt: cannot marshal stats: %v\n", err)
		// drop samples and retry
		for _, s := range allStats {
			s.Samples = []any{"(samples not serialisable)"}
		}
		b, _ = json.Marshal(out{Stats: allStats})
	}
	_ = os.WriteFile(path, b, 0o644)
}

// Main is a TestMain body: run tests, flush stats, exit.
func Main(m *testing.M) {
	code := m.Run()
	Flush()
	os.Exit(code)
}

// ---------------------------------------------------------------------------
// violations and replay

// Envelope is the on-disk form of a replay file.
type Envelope struct {
	Property string          `json:"property"`
	Kind     string          `json:"kind"`
	Message  string          `json:"message"`
	Case     json.RawMessage `json:"case"`
}

var violMu sync.Mutex

// Violation writes a replay file for the failing case and prints the
// VIOLATION line.  It returns the path of the replay file.
func Violation(property, kind string, c any, msg string) string {
	violMu.Lock()
	defer violMu.Unlock()
	raw, err := json.Marshal(c)
	if err != nil {
		raw, _ = json.Marshal(fmt.Sprintf("unserialisable case: %v", err))
	}
	env := Envelope{Property: property, Kind: kind, Message: msg, Case: raw}
	b, _ := json.MarshalIndent(env, "", " ")
	dir := os.Getenv("VERIF_REPLAY_DIR")
	if dir == "" {
		dir = filepath.Join(Root(), "replays", property, "found")
	}
	_ = os.MkdirAll(dir, 0o755)
	path := filepath.Join(dir, fmt.Sprintf("%s-%016x.json", kind, HashBytes(raw)))
	if err := os.WriteFile(path, b, 0o644); err != nil {
		fmt.Fprintf(os.Stderr, "vt: cannot write replay file: %v\n", err)
	}
	if len(msg) > 600 {
		msg = msg[:600] + "..."
	}
	fmt.Printf("\nVIOLATION property=%s replay=%s\n  kind=%s: %s\n", property, path, kind, msg)
	return path
}

// Replayer can re-run a stored case.
type Replayer interface {
	ReplayKind() string
	Replay(raw json.RawMessage) error
}

var replayers = map[string]Replayer{}

// Register makes a property replayable.
func Register(r Replayer) {
	replayers[r.ReplayKind()] = r
}

// ReplayFunc adapts a function to the Replayer interface.
type ReplayFunc struct {
	Kind string
	Fn   func(raw json.RawMessage) error
}

func (r ReplayFunc) ReplayKind() string               { return r.Kind }
func (r ReplayFunc) Replay(raw json.RawMessage) error { return r.Fn(raw) }

// ReplayFile re-runs the case stored in path.  It returns (true, err) if the
// kind is known to this package, (false, nil) otherwise.
func ReplayFile(path string) (known bool, env Envelope, err error) {
	b, err := os.ReadFile(path)
	if err != nil {
		return true, env, fmt.Errorf("cannot read replay file: %w", err)
	}
	if err := json.Unmarshal(b, &env); err != nil {
		return true, env, fmt.Errorf("cannot parse replay file: %w", err)
	}
	r, ok := replayers[env.Kind]
	if !ok {
		return false, env, nil
	}
	return true, env, Guard(func() error { return r.Replay(env.Case) })
}

// RunReplay is the body of TestReplay: it replays the files named by
// VERIF_REPLAY (colon separated).  A failing case prints a VIOLATION line
// unless VERIF_REPLAY_QUIET is set (used for known-finding witnesses, where
// the driver prints the KNOWN-FINDING line instead) and fails the test.
func RunReplay(t *testing.T) {
	files := os.Getenv("VERIF_REPLAY")
	if files == "" {
		t.Skip("VERIF_REPLAY not set")
	}
	for _, path := range filepath.SplitList(files) {
		known, env, err := ReplayFile(path)
		if !known {
			t.Errorf("replay %s: unknown kind %q", path, env.Kind)
			fmt.Printf("REPLAY-UNKNOWN %s\n", path)
			continue
		}
		if err != nil {
			if os.Getenv("VERIF_REPLAY_QUIET") != "" {
				fmt.Printf("REPLAY-FAIL %s: %v\n", path, oneLine(err.Error()))
			} else {
				fmt.Printf("\nVIOLATION property=%s replay=%s\n  kind=%s: %s\n", env.Property, path, env.Kind, oneLine(err.Error()))
			}
			t.Errorf("replay %s fails: %v", path, err)
		} else {
			fmt.Printf("REPLAY-PASS %s\n", path)
		}
	}
}

func oneLine(s string) string {
	if len(s) > 600 {
		s = s[:600] + "..."
	}
	out := []byte(s)
	for i, c := range out {
		if c == '\n' {
			out[i] = ' '
		}
	}
	return string(out)
}

// Guard runs f and converts a panic into an error.
func Guard(f func() error) (err error) {
	defer func() {
		if r := recover(); r != nil {
			err = fmt.Errorf("panic: %v\n%s", r, debug.Stack())
		}
	}()
	return f()
}

// ---------------------------------------------------------------------------
// rapid-driven properties

// Prop is a property over generated cases of type T.  T must survive a JSON
// round trip.
type Prop[T any] struct {
	Property string
	Kind     string
	// Gen draws a case.
	Gen func(t *rapid.T) T
	// Check is the oracle; nil means the property held.  It must be a pure
	// function of the case (and the code under test).
	Check func(c *T) error
	// Classify is called after Check; it returns whether the case is
	// non-trivial and the classes it falls into.
	Classify func(c *T) (bool, []string)
	// Excluded lists the known findings whose region the case touched and
	// which were therefore not asserted (counted in the evidence).
	Excluded func(c *T) []string
	// Render gives the evidence sample for a case (default: the case itself).
	Render func(c *T) any
}

func (p *Prop[T]) ReplayKind() string { return p.Kind }

func (p *Prop[T]) Replay(raw json.RawMessage) error {
	var c T
	if err := json.Unmarshal(raw, &c); err != nil {
		return fmt.Errorf("cannot decode case: %w", err)
	}
	return p.Check(&c)
}

// Run drives the property with rapid and records evidence in st.
func (p *Prop[T]) Run(t *testing.T, st *Stats) {
	var last *T
	var lastErr error
	defer func() {
		if last != nil {
			Violation(p.Property, p.Kind, last, lastErr.Error())
		}
	}()
	rapid.Check(t, func(rt *rapid.T) {
		c := p.Gen(rt)
		err := Guard(func() error { return p.Check(&c) })
		nt, classes := false, []string(nil)
		if p.Classify != nil {
			nt, classes = p.Classify(&c)
		}
		st.Eval(Hash(&c), nt, classes...)
		if p.Excluded != nil {
			for _, f := range p.Excluded(&c) {
				st.Exclude(f)
			}
		}
		st.Sample(func() any {
			if p.Render != nil {
				return p.Render(&c)
			}
			b, _ := json.Marshal(&c)
			if len(b) > 2000 {
				return string(b[:2000]) + "...(truncated)"
			}
			return json.RawMessage(b)
		})
		if err != nil {
			cc := c
			last, lastErr = &cc, err
			rt.Fatalf("%v", err)
		}
	})
}

// ---------------------------------------------------------------------------
// known findings

type finding struct {
	ID       string `json:"id"`
	Property string `json:"property"`
	Status   string `json:"status"` // "open" or "fixed"
}

var (
	findingsOnce sync.Once
	openFindings map[string]bool
)

// FindingOpen reports whether the known-findings file lists an open finding
// with the given id.  Generators use it to exclude (and count) the region of
// a recorded defect.
func FindingOpen(id string) bool {
	findingsOnce.Do(func() {
		openFindings = map[string]bool{}
		b, err := os.ReadFile(filepath.Join(Root(), "known_findings.json"))
		if err != nil {
			return
		}
		var doc struct {
			Findings []finding `json:"findings"`
		}
		if json.Unmarshal(b, &doc) != nil {
			return
		}
		for _, f := range doc.Findings {
			if f.Status == "open" {
				openFindings[f.ID] = true
			}
		}
	})
	if os.Getenv("VERIF_IGNORE_FINDINGS") != "" {
		return false
	}
	return openFindings[id]
}

// Fatal reports a violation which cannot be shrunk (e.g. a call that does
// not terminate, leaving goroutines spinning) and ends the process: the
// replay file holds the case as generated.
func Fatal(property, kind string, c any, msg string) {
	Violation(property, kind, c, msg)
	Flush()
	os.Exit(1)
}
