package filtergen

import (
	"pgregory.net/rapid"
	"seehuhn.de/go/pdf/verif/internal/gen"
	"seehuhn.de/go/pdf/verif/internal/vt"
)

// MaxRowBytes bounds the row length of generated cases (a bound of the
// harness, not of the library: rows up to 2^16*32*2 bytes are accepted).
const MaxRowBytes = 1 << 16

// MaxDataBytes bounds the input size of generated cases.
const MaxDataBytes = 96 << 10

// SpecOptions restricts GenSpec.
type SpecOptions struct {
	Kinds []string // nil: all kinds
	// ValidOnly suppresses the values which the library's validation is
	// expected to reject (used where rejected sets would be wasted work).
	ValidOnly bool
	// OneByteRows demands RowBytes() == 1 for row-based filters (for the
	// outer positions of a chain, whose input is not made of rows).
	OneByteRows bool
}

// uniform draws a value in [0,n) with (nearly) equal probabilities.  rapid's
// own integer generators strongly prefer small values (40% of all cases used
// the first filter kind of a weighted list); for categorical choices the
// draw is therefore scrambled.  0 still maps to 0, so that shrinking moves
// towards the first alternative.
func uniform(t *rapid.T, label string, n int) int {
	u := rapid.Uint64().Draw(t, label)
	if u == 0 || n <= 1 {
		return 0
	}
	return int(vt.NewRand(u).Uint64() % uint64(n))
}

func pick[T any](t *rapid.T, label string, vals ...T) T {
	return vals[uniform(t, label, len(vals))]
}

// weighted draws an index with the given weights.
func weighted(t *rapid.T, label string, weights ...int) int {
	total := 0
	for _, w := range weights {
		total += w
	}
	x := uniform(t, label, total)
	for i, w := range weights {
		if x < w {
			return i
		}
		x -= w
	}
	return 0
}

// Chance returns true with probability about 1/n.
func Chance(t *rapid.T, label string, n int) bool {
	return uniform(t, label, n) == n-1
}

// Size draws a value in [lo,hi]: half of the time with rapid's own generator
// (which prefers small values and shrinks well), half of the time uniformly.
func Size(t *rapid.T, label string, lo, hi int) int {
	if uniform(t, label+"_mode", 2) == 0 {
		return rapid.IntRange(lo, hi).Draw(t, label)
	}
	return Uniform(t, label, lo, hi)
}

// Uniform draws a value in [lo,hi] with (nearly) equal probabilities.
func Uniform(t *rapid.T, label string, lo, hi int) int {
	return lo + uniform(t, label, hi-lo+1)
}

// GenSpec draws a filter with parameters.
func GenSpec(t *rapid.T, o SpecOptions) Spec {
	kinds := o.Kinds
	if kinds == nil {
		kinds = AllKinds
	}
	w := make([]int, len(kinds))
	for i, k := range kinds {
		switch k {
		case Flate, CCITTFax:
			w[i] = 25
		case LZW:
			w[i] = 20
		case ASCIIHex:
			w[i] = 6
		default:
			w[i] = 8
		}
	}
	s := Spec{Kind: kinds[weighted(t, "kind", w...)]}
	switch s.Kind {
	case Flate, LZW, Compress:
		genPredictor(t, &s, o)
		if s.Kind == LZW {
			s.OffByOne = rapid.Bool().Draw(t, "off_by_one")
		}
	case CCITTFax:
		genCCITT(t, &s, o)
	}
	return s
}

func genPredictor(t *rapid.T, s *Spec, o SpecOptions) {
	// 0 is the shorthand for 1
	preds := []int{0, 1, 2, 10, 11, 12, 13, 14, 15, 2, 12, 14, 15}
	s.Predictor = pick(t, "predictor", preds...)
	if !o.ValidOnly && Chance(t, "bad_predictor", 40) {
		s.Predictor = pick(t, "bad_predictor_value", 3, 9, 16, -1)
	}
	if s.Predictor < 2 {
		// the other fields must stay 0; rarely set one (a write-time error)
		if !o.ValidOnly && Chance(t, "stray_field", 20) {
			switch uniform(t, "stray_which", 3) {
			case 0:
				s.Colors = 1
			case 1:
				s.BPC = 8
			default:
				s.Columns = 1
			}
		}
		return
	}
	if o.OneByteRows {
		// all layouts with exactly one byte per row
		l := pick(t, "one_byte_layout", [3]int{1, 8, 1}, [3]int{0, 0, 0}, [3]int{1, 1, 8}, [3]int{2, 4, 1},
			[3]int{4, 2, 1}, [3]int{1, 2, 4}, [3]int{2, 2, 2}, [3]int{1, 4, 2}, [3]int{4, 1, 2}, [3]int{8, 1, 1})
		s.Colors, s.BPC, s.Columns = l[0], l[1], l[2]
		return
	}
	switch weighted(t, "colors_class", 3, 20, 2, 1) {
	case 0:
		s.Colors = 0 // shorthand for 1
	case 1:
		s.Colors = Size(t, "colors", 1, 5)
	case 2:
		s.Colors = pick(t, "colors_tail", 6, 32, 60, 256)
	default:
		if o.ValidOnly {
			s.Colors = 4
		} else {
			s.Colors = pick(t, "colors_bad", 61, 257, -1) // 61 is fine for PNG
		}
	}
	s.BPC = pick(t, "bpc", 0, 1, 2, 4, 8, 16, 8, 1)
	if !o.ValidOnly && Chance(t, "bad_bpc", 40) {
		s.BPC = pick(t, "bad_bpc_value", 3, 32, -8)
	}
	switch weighted(t, "columns_class", 2, 20, 3, 1) {
	case 0:
		s.Columns = 0 // shorthand for 1
	case 1:
		s.Columns = Size(t, "columns", 1, 70)
	case 2:
		s.Columns = Size(t, "columns_tail", 71, 5000)
	default:
		if o.ValidOnly {
			s.Columns = 64
		} else {
			s.Columns = pick(t, "columns_bad", -1, 1<<20+1)
		}
	}
	// harness bound on the row length
	if s.Columns > 1 {
		c, b := max(s.Colors, 1), s.BPC
		if b <= 0 {
			b = 8
		}
		if b > 16 {
			b = 16
		}
		if c > 256 {
			c = 256
		}
		if maxCols := MaxRowBytes * 8 / (c * b); s.Columns > maxCols && s.Columns <= 1<<20 {
			s.Columns = max(maxCols, 1)
		}
	}
}

func genCCITT(t *rapid.T, s *Spec, o SpecOptions) {
	s.K = pick(t, "k", -1, 0, 1, 2, 4, -1, 0)
	if Chance(t, "k_tail", 20) {
		s.K = pick(t, "k_tail_value", -7, 3, 9, 100)
	}
	s.EndOfLine = rapid.Bool().Draw(t, "end_of_line")
	s.ByteAlign = rapid.Bool().Draw(t, "byte_align")
	s.BlackIs1 = rapid.Bool().Draw(t, "black_is_1")
	s.IgnoreEOB = rapid.Bool().Draw(t, "ignore_eob")
	if o.OneByteRows {
		s.Columns = 8
	} else {
		switch weighted(t, "columns_class", 2, 20, 4, 1) {
		case 0:
			s.Columns = 0 // shorthand for 1728
		case 1:
			s.Columns = Size(t, "columns", 1, 70)
		case 2:
			s.Columns = pick(t, "columns_tail", 1728, 71, 128, 1792, 2560, 2561, 2623, 2624, 4000, 5000, 5184)
		default:
			if o.ValidOnly {
				s.Columns = 64
			} else {
				s.Columns = pick(t, "columns_bad", -1, 1<<20+1)
			}
		}
	}
	// Rows is filled in by GenData (RowsMode)
	switch weighted(t, "damaged_class", 16, 3, 1) {
	case 1:
		s.Damaged = pick(t, "damaged", 1, 5, 1000)
	case 2:
		if !o.ValidOnly {
			s.Damaged = -1
		}
	}
}

// ---------------------------------------------------------------------------
// data

// Data classes.
const (
	ClassRandom   = "random"
	ClassRuns     = "runs"
	ClassEqual    = "equal"
	ClassBoundary = "boundary"
	ClassLZW      = "lzw" // > 4 KiB incompressible: every LZW code width and a table reset
	ClassSmooth   = "smooth"
	ClassSimilar  = "similar" // CCITTFax: rows which differ little from the row above
	ClassPage     = "page"    // CCITTFax: a fax-page-sized image (GenPage), see below
	// ClassNoise2 is two-symbol noise: incompressible in the sense that LZW
	// creates a table entry with every code, but the phrases grow, so that
	// the code count grows more slowly than the length.  Not drawn by
	// GenData; used by enumerators.  Like ClassRandom it is prefix-stable:
	// Expand(.., n, seed) is a prefix of Expand(.., m, seed) for n < m.
	ClassNoise2 = "noise2"
	// Bulk classes: megabytes of highly repetitive data (a blank page
	// image), on which the strings of an LZW table grow to thousands of
	// bytes.  Not drawn by GenData (whose cases are bounded to 96 KiB); used
	// by the bulk jobs.  Never stored in the case: shape + seed.
	ClassConst     = "const"     // one byte value (0x00, 0xFF or from the seed)
	ClassLongRuns  = "longruns"  // two values alternating in runs of 1000-9000 bytes
	ClassBlankPage = "blankpage" // rows of 0xFF bytes, a few rows of 0x00 (1 bit per sample: white page, black lines)
)

// Data is the input of a case.  Bytes holds the expanded data if it is small
// enough to be stored in a replay file; otherwise (Stored == false) the data
// is re-expanded from Class, N and Seed, which is deterministic.
type Data struct {
	Class  string  `json:"class"`
	N      int     `json:"n"` // rows for row-based filters, bytes otherwise
	Seed   uint64  `json:"seed"`
	Stored bool    `json:"stored"`
	Bytes  gen.Hex `json:"bytes,omitempty"`
}

// maxStored is the largest input which is written into the case itself.
const maxStored = 24 << 10

// Get returns the input bytes.
func (d *Data) Get(s Spec) []byte {
	if d.Stored {
		return d.Bytes
	}
	return Expand(s, d.Class, d.N, d.Seed)
}

// GenData draws input data of admissible shape for s.  For CCITTFax it also
// sets s.Rows (unknown, the exact number of rows, or a larger number).
func GenData(t *rapid.T, s *Spec) Data {
	rb := safeRowBytes(*s)
	var d Data
	rowBased := s.RowBased()
	classes := []string{ClassRandom, ClassRuns, ClassEqual, ClassBoundary, ClassLZW, ClassSmooth}
	weights := []int{6, 5, 3, 4, 2, 3}
	if s.Kind == CCITTFax {
		classes = []string{ClassRandom, ClassRuns, ClassEqual, ClassBoundary, ClassSimilar}
		weights = []int{4, 6, 2, 3, 6}
	}
	d.Class = classes[weighted(t, "data_class", weights...)]
	maxN := MaxDataBytes / rb
	switch d.Class {
	case ClassBoundary:
		if rowBased {
			d.N = Size(t, "rows", 0, 4)
		} else {
			block := pick(t, "block", 0, 4, 128, 256, 1024, 4096)
			d.N = max(0, block+Size(t, "delta", -4, 4))
		}
	case ClassLZW:
		n := Size(t, "lzw_bytes", 6000, 12000)
		d.N = (n + rb - 1) / rb
	default:
		if rowBased {
			if Chance(t, "many_rows", 10) {
				d.N = Size(t, "rows_tail", 13, 300)
			} else {
				d.N = Size(t, "rows", 0, 12)
			}
		} else {
			if Chance(t, "long", 10) {
				d.N = Size(t, "len_tail", 2001, 70000)
			} else {
				d.N = Size(t, "len", 0, 2000)
			}
		}
	}
	if d.N > maxN {
		d.N = maxN
	}
	d.Seed = rapid.Uint64().Draw(t, "data_seed")
	if s.Kind == CCITTFax {
		switch weighted(t, "rows_mode", 5, 5, 1) {
		case 1:
			s.Rows = d.N // 0 rows: "not given"
		case 2:
			s.Rows = d.N + Size(t, "rows_extra", 1, 3)
		}
	}
	b := Expand(*s, d.Class, d.N, d.Seed)
	if len(b) <= maxStored {
		d.Stored, d.Bytes = true, b
	}
	return d
}

// GenPage draws a CCITTFax filter and an image of the size of an ordinary
// fax page: 1728, 2048 or 2432 columns (or an odd width) and 1200-2400 rows,
// K in {0, 4, -1}, with and without /Rows, EndOfBlock on and off.  The small
// cases of GenSpec/GenData (at most 96 KiB of input) never reach the number
// of rows at which a bound on the decoded output which is derived from the
// wrong quantity becomes visible; a page of 1728 x 2200 pixels is 475 KB.
// The data is not stored in the case (it is re-expanded from the seed).
func GenPage(t *rapid.T) (Spec, Data) {
	s := Spec{Kind: CCITTFax}
	s.Columns = pick(t, "page_columns", 1728, 2048, 2432, 1728, 1733, 2591, 1216)
	s.K = pick(t, "page_k", 0, 4, -1)
	s.EndOfLine = rapid.Bool().Draw(t, "end_of_line")
	s.ByteAlign = rapid.Bool().Draw(t, "byte_align")
	s.BlackIs1 = rapid.Bool().Draw(t, "black_is_1")
	s.IgnoreEOB = rapid.Bool().Draw(t, "ignore_eob")
	d := Data{Class: ClassPage}
	d.N = Size(t, "page_rows", 1200, 2400)
	d.Seed = rapid.Uint64().Draw(t, "data_seed")
	if rapid.Bool().Draw(t, "rows_given") {
		s.Rows = d.N
	}
	return s, d
}

// safeRowBytes is RowBytes, or 1 for parameter sets without a sensible row
// length (these are rejected by the library's validation anyway).
func safeRowBytes(s Spec) int {
	rb := s.RowBytes()
	if rb <= 0 {
		return 1
	}
	return rb
}

// Expand deterministically produces n rows (row-based filters) or n bytes of
// the given class.
func Expand(s Spec, class string, n int, seed uint64) []byte {
	if n <= 0 {
		return []byte{}
	}
	rb := safeRowBytes(s)
	if s.Kind == CCITTFax && s.RowBits() > 0 {
		return expandBits(s, class, n, seed)
	}
	size := n * rb
	r := vt.NewRand(seed)
	switch class {
	case ClassRuns:
		lens := []int{1, 2, 3, 4, 5, 126, 127, 128, 129, 130, 131, 255, 256, 257, 258, 600}
		vals := r.Bytes(4)
		out := make([]byte, 0, size)
		for len(out) < size {
			l := lens[r.Intn(len(lens))]
			if r.Intn(3) == 0 {
				l = 1 + r.Intn(40)
			}
			v := vals[r.Intn(len(vals))]
			if r.Intn(4) == 0 {
				v = byte(r.Intn(256))
			}
			for i := 0; i < l && len(out) < size; i++ {
				out = append(out, v)
			}
		}
		return out
	case ClassEqual:
		v := []byte{0, 0xFF, byte(r.Intn(256))}[r.Intn(3)]
		out := make([]byte, size)
		for i := range out {
			out[i] = v
		}
		return out
	case ClassSmooth:
		// slowly varying samples with a little noise: the predictors leave
		// small residuals, PNG "optimum" picks different filters per row
		out := make([]byte, size)
		a, b, noise := 1+r.Intn(5), r.Intn(7), 1+r.Intn(3)
		for i := range out {
			x, y := i%rb, i/rb
			out[i] = byte(x*a/2 + y*b + r.Intn(noise))
		}
		return out
	case ClassConst:
		v := []byte{0xFF, 0x00, byte(r.Intn(256))}[r.Intn(3)]
		out := make([]byte, size)
		if v != 0 {
			for i := range out {
				out[i] = v
			}
		}
		return out
	case ClassLongRuns:
		vals := [2]byte{byte(r.Intn(256)), 0}
		vals[1] = vals[0] ^ byte(1+r.Intn(255))
		out := make([]byte, size)
		for i, k := 0, 0; i < size; k++ {
			l := 1000 + r.Intn(8001)
			for j := 0; j < l && i < size; j++ {
				out[i] = vals[k&1]
				i++
			}
		}
		return out
	case ClassBlankPage:
		out := make([]byte, size)
		for i := range out {
			out[i] = 0xFF
		}
		for k := 3 + r.Intn(6); k > 0 && n > 0; k-- {
			row := r.Intn(n)
			for h := 1 + r.Intn(3); h > 0 && row < n; h-- {
				for i := row * rb; i < (row+1)*rb; i++ {
					out[i] = 0
				}
				row++
			}
		}
		return out
	case ClassNoise2:
		out := r.Bytes(size)
		for i := range out {
			out[i] = 'a' + out[i]&1
		}
		return out
	case ClassBoundary:
		switch r.Intn(3) {
		case 0:
			return make([]byte, size)
		case 1:
			out := make([]byte, size)
			for i := range out {
				out[i] = byte(i)
			}
			return out
		}
		return r.Bytes(size)
	}
	return r.Bytes(size) // random, lzw
}

// expandBits makes bi-level rows with zero padding bits.
func expandBits(s Spec, class string, rows int, seed uint64) []byte {
	cols := s.RowBits()
	rb := s.RowBytes()
	r := vt.NewRand(seed)
	out := make([]byte, rows*rb)
	set := func(row, from, to int, v byte) { // [from,to)
		base := row * rb
		for x := from; x < to && x < cols; x++ {
			m := byte(0x80) >> (x % 8)
			if v != 0 {
				out[base+x/8] |= m
			} else {
				out[base+x/8] &^= m
			}
		}
	}
	runRow := func(row int) {
		lens := []int{1, 1, 2, 3, 4, 7, 8, 9, 63, 64, 65, 127, 128, 640, 1727, 1728, 1791, 1792, 1793, 2559, 2560, 2561, 2623}
		v := byte(r.Intn(2))
		for x := 0; x < cols; {
			l := lens[r.Intn(len(lens))]
			if r.Intn(2) == 0 {
				l = 1 + r.Intn(12)
			}
			if r.Intn(8) == 0 {
				l = cols // rest of the row
			}
			set(row, x, x+l, v)
			x += l
			v ^= 1
		}
	}
	switch class {
	case ClassPage:
		// cheap to produce: mostly white rows with a few black runs, rows
		// repeated from above (short 2-D codes), and some random rows
		white, black := byte(0xFF), byte(0)
		if s.BlackIs1 {
			white, black = 0, 1
		}
		for row := 0; row < rows; row++ {
			cur := out[row*rb : (row+1)*rb]
			switch k := r.Intn(16); {
			case k == 0:
				copy(cur, r.Bytes(rb))
			case k < 6 && row > 0:
				copy(cur, out[(row-1)*rb:row*rb])
			default:
				for i := range cur {
					cur[i] = white
				}
				for n := r.Intn(5); n > 0; n-- {
					x := r.Intn(cols)
					set(row, x, x+1+r.Intn(200), black&1)
				}
			}
		}
	case ClassEqual:
		v := byte(r.Intn(2))
		for row := 0; row < rows; row++ {
			set(row, 0, cols, v)
		}
	case ClassRuns:
		for row := 0; row < rows; row++ {
			runRow(row)
		}
	case ClassSimilar:
		for row := 0; row < rows; row++ {
			if row == 0 || r.Intn(6) == 0 {
				runRow(row)
				continue
			}
			copy(out[row*rb:(row+1)*rb], out[(row-1)*rb:row*rb])
			// a few local edits: move an edge by up to 4 pixels, add or
			// remove a short run
			for k := r.Intn(4); k > 0; k-- {
				x := r.Intn(cols)
				set(row, x, x+1+r.Intn(4), byte(r.Intn(2)))
			}
		}
	default: // random, boundary
		mode := 0
		if class == ClassBoundary {
			mode = r.Intn(3)
		}
		for row := 0; row < rows; row++ {
			switch mode {
			case 0:
				copy(out[row*rb:], r.Bytes(rb))
			case 1:
				set(row, 0, cols, byte(row%2))
			default:
				runRow(row)
			}
		}
	}
	s.Mask(out)
	return out
}
