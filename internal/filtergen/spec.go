// Package filtergen generates stream-filter test cases: a filter with its
// parameters, input data of admissible shape (whole rows where the filter
// works on rows) and a write/read chunking.  It is shared by the checks for
// C06 (round trip), C07 (independent codecs) and C08 (hostile input, which
// mutates valid encodings made here).
package filtergen

import (
	"fmt"

	"seehuhn.de/go/pdf"
)

// Versions lists the nine PDF versions, indexed by Case.Version.
var Versions = []pdf.Version{pdf.V1_0, pdf.V1_1, pdf.V1_2, pdf.V1_3, pdf.V1_4,
	pdf.V1_5, pdf.V1_6, pdf.V1_7, pdf.V2_0}

// Filter kinds.
const (
	ASCII85   = "ASCII85"
	ASCIIHex  = "ASCIIHex"
	RunLength = "RunLength"
	Flate     = "Flate"
	LZW       = "LZW"
	Compress  = "Compress"
	CCITTFax  = "CCITTFax"
)

// AllKinds lists every encodable filter.
var AllKinds = []string{ASCII85, ASCIIHex, RunLength, Flate, LZW, Compress, CCITTFax}

// Spec is the JSON form of a filter value (the fields of the pdf.Filter*
// structs, exactly as the caller would set them, shorthands included).
type Spec struct {
	Kind string `json:"kind"`

	// Flate, LZW, Compress
	Predictor int  `json:"predictor,omitempty"`
	Colors    int  `json:"colors,omitempty"`
	BPC       int  `json:"bpc,omitempty"`
	Columns   int  `json:"columns,omitempty"` // also CCITTFax
	OffByOne  bool `json:"off_by_one,omitempty"`

	// CCITTFax
	K         int  `json:"k,omitempty"`
	EndOfLine bool `json:"end_of_line,omitempty"`
	ByteAlign bool `json:"byte_align,omitempty"`
	BlackIs1  bool `json:"black_is_1,omitempty"`
	IgnoreEOB bool `json:"ignore_eob,omitempty"`
	Rows      int  `json:"rows,omitempty"`
	Damaged   int  `json:"damaged,omitempty"`
}

// Filter builds the library's filter value.
func (s Spec) Filter() pdf.Filter {
	switch s.Kind {
	case ASCII85:
		return pdf.FilterASCII85{}
	case ASCIIHex:
		return pdf.FilterASCIIHex{}
	case RunLength:
		return pdf.FilterRunLength{}
	case Flate:
		return pdf.FilterFlate{Predictor: pdf.FlatePredictor(s.Predictor), Colors: s.Colors,
			BitsPerComponent: s.BPC, Columns: s.Columns}
	case LZW:
		return pdf.FilterLZW{Predictor: pdf.FlatePredictor(s.Predictor), Colors: s.Colors,
			BitsPerComponent: s.BPC, Columns: s.Columns, OffByOne: s.OffByOne}
	case Compress:
		return pdf.FilterCompress{Predictor: pdf.FlatePredictor(s.Predictor), Colors: s.Colors,
			BitsPerComponent: s.BPC, Columns: s.Columns}
	case CCITTFax:
		return pdf.FilterCCITTFax{K: s.K, EndOfLine: s.EndOfLine, EncodedByteAlign: s.ByteAlign,
			Columns: s.Columns, Rows: s.Rows, IgnoreEndOfBlock: s.IgnoreEOB, BlackIs1: s.BlackIs1,
			DamagedRowsBeforeError: s.Damaged}
	}
	panic("filtergen: unknown kind " + s.Kind)
}

// FromFilter is the inverse of Filter.
func FromFilter(f pdf.Filter) (Spec, error) {
	switch f := f.(type) {
	case pdf.FilterASCII85:
		return Spec{Kind: ASCII85}, nil
	case pdf.FilterASCIIHex:
		return Spec{Kind: ASCIIHex}, nil
	case pdf.FilterRunLength:
		return Spec{Kind: RunLength}, nil
	case pdf.FilterFlate:
		return Spec{Kind: Flate, Predictor: int(f.Predictor), Colors: f.Colors, BPC: f.BitsPerComponent, Columns: f.Columns}, nil
	case pdf.FilterLZW:
		return Spec{Kind: LZW, Predictor: int(f.Predictor), Colors: f.Colors, BPC: f.BitsPerComponent, Columns: f.Columns, OffByOne: f.OffByOne}, nil
	case pdf.FilterCompress:
		return Spec{Kind: Compress, Predictor: int(f.Predictor), Colors: f.Colors, BPC: f.BitsPerComponent, Columns: f.Columns}, nil
	case pdf.FilterCCITTFax:
		return Spec{Kind: CCITTFax, K: f.K, EndOfLine: f.EndOfLine, ByteAlign: f.EncodedByteAlign, Columns: f.Columns,
			Rows: f.Rows, IgnoreEOB: f.IgnoreEndOfBlock, BlackIs1: f.BlackIs1, Damaged: f.DamagedRowsBeforeError}, nil
	}
	return Spec{}, fmt.Errorf("unexpected filter type %T", f)
}

// HasPredictor reports whether a predictor other than "none" is selected.
func (s Spec) HasPredictor() bool {
	switch s.Kind {
	case Flate, LZW, Compress:
		return s.Predictor >= 2
	}
	return false
}

// Effective is the harness's own normaliser: it replaces the documented
// zero-value shorthands by the values they stand for and resolves Compress
// to the filter it selects at version v.  Two filter values with the same
// effective form denote the same PDF filter.
//
//	Flate/LZW/Compress: Predictor 0 = 1; with a predictor Colors 0 = 1,
//	  BitsPerComponent 0 = 8, Columns 0 = 1; without one the three fields
//	  have no meaning (and must be 0 on write).
//	Compress: Flate from PDF 1.2, LZW with EarlyChange=1 before.
//	CCITTFax: Columns 0 = 1728; every K < 0 selects Group 4; Rows and
//	  DamagedRowsBeforeError <= 0 mean "not given".
func (s Spec) Effective(v pdf.Version) Spec {
	e := s
	switch s.Kind {
	case Flate, LZW, Compress:
		if e.Kind == Compress {
			if v >= pdf.V1_2 {
				e.Kind = Flate
			} else {
				e.Kind = LZW
				e.OffByOne = true
			}
		}
		if e.Predictor == 0 {
			e.Predictor = 1
		}
		if e.Predictor == 1 {
			e.Colors, e.BPC, e.Columns = 0, 0, 0
		} else {
			if e.Colors == 0 {
				e.Colors = 1
			}
			if e.BPC == 0 {
				e.BPC = 8
			}
			if e.Columns == 0 {
				e.Columns = 1
			}
		}
	case CCITTFax:
		if e.Columns == 0 {
			e.Columns = 1728
		}
		if e.K < 0 {
			e.K = -1
		}
		if e.Rows < 0 {
			e.Rows = 0
		}
		if e.Damaged < 0 {
			e.Damaged = 0
		}
	}
	return e
}

// PDFName returns the filter name which must appear in /Filter at version v.
func (s Spec) PDFName(v pdf.Version) pdf.Name {
	switch s.Effective(v).Kind {
	case ASCII85:
		return "ASCII85Decode"
	case ASCIIHex:
		return "ASCIIHexDecode"
	case RunLength:
		return "RunLengthDecode"
	case Flate:
		return "FlateDecode"
	case LZW:
		return "LZWDecode"
	case CCITTFax:
		return "CCITTFaxDecode"
	}
	return ""
}

// RowBits returns the number of data bits per row of input, 8 for filters
// which do not work on rows.
func (s Spec) RowBits() int {
	switch s.Kind {
	case Flate, LZW, Compress:
		if !s.HasPredictor() {
			return 8
		}
		e := s.Effective(pdf.V2_0)
		return e.Colors * e.BPC * e.Columns
	case CCITTFax:
		return s.Effective(pdf.V2_0).Columns
	}
	return 8
}

// RowBytes returns the length of one row of input (1 if the filter does
// not work on rows).
func (s Spec) RowBytes() int { return (s.RowBits() + 7) / 8 }

// RowBased reports whether the input must consist of whole rows.
func (s Spec) RowBased() bool { return s.Kind == CCITTFax || s.HasPredictor() }

// PadMask returns the mask of the bits of the last byte of each row which
// are data.  Only CCITTFax has padding bits which are not data (the encoder
// demands that they are zero); the predictors pass padding bits through.
func (s Spec) PadMask() byte {
	if s.Kind != CCITTFax {
		return 0xFF
	}
	used := s.RowBits() % 8
	if used == 0 {
		return 0xFF
	}
	return byte(0xFF << (8 - used))
}

// Mask clears the padding bits of every row of data in place.
func (s Spec) Mask(data []byte) {
	m := s.PadMask()
	if m == 0xFF {
		return
	}
	rb := s.RowBytes()
	for i := rb - 1; i < len(data); i += rb {
		data[i] &= m
	}
}

// Label is a short class name for the evidence.
func (s Spec) Label() string {
	switch s.Kind {
	case Flate, LZW, Compress:
		l := s.Kind
		if s.Kind == LZW {
			if s.OffByOne {
				l += "-early1"
			} else {
				l += "-early0"
			}
		}
		return fmt.Sprintf("%s/pred%d", l, s.Predictor)
	case CCITTFax:
		switch {
		case s.K < 0:
			return "CCITTFax/G4"
		case s.K == 0:
			return "CCITTFax/G3-1D"
		}
		return "CCITTFax/G3-2D"
	}
	return s.Kind
}
