package filtergen

import (
	"bytes"
	"errors"
	"fmt"
	"io"

	"pgregory.net/rapid"
	"seehuhn.de/go/membudget"
	"seehuhn.de/go/pdf"
	"seehuhn.de/go/pdf/internal/limits"
)

// Chunking says how the input is written and how the output is read.
type Chunking struct {
	// Write: "single" (one Write call), "bytes" (one byte per call) or
	// "splits" (sizes from Splits, cycled; zero-length writes included).
	Write  string `json:"write"`
	Splits []int  `json:"splits,omitempty"`
	// ReadBuf is the length of the buffer handed to Read: 1, 7 or 4096.
	ReadBuf int `json:"read_buf"`
	// Source: how the decoder's source delivers the encoded bytes: ""
	// (as much as asked for), "one" (one byte per Read) or "splits".
	Source string `json:"source,omitempty"`
}

// GenChunking draws a chunking.
func GenChunking(t *rapid.T) Chunking {
	var c Chunking
	c.Write = pick(t, "write", "single", "bytes", "splits", "single", "splits")
	c.ReadBuf = pick(t, "read_buf", 4096, 1, 7)
	c.Source = pick(t, "source", "", "", "", "one", "splits")
	if c.Write == "splits" || c.Source == "splits" {
		c.Splits = rapid.SliceOfN(rapid.IntRange(0, 700), 1, 10).Draw(t, "splits")
		// at least one positive size, or nothing ever gets written
		pos := false
		for _, s := range c.Splits {
			pos = pos || s > 0
		}
		if !pos {
			c.Splits = append(c.Splits, 1)
		}
	}
	return c
}

// Trivial reports whether the chunking is the plain one.
func (c Chunking) Trivial() bool {
	return c.Write == "single" && c.ReadBuf == 4096 && c.Source == ""
}

// Label is a class name for the evidence.
func (c Chunking) Label() string {
	return fmt.Sprintf("write-%s/read-%d", c.Write, c.ReadBuf)
}

// WriteAll writes data to w in the chunks the chunking prescribes.
func (c Chunking) WriteAll(w io.Writer, data []byte) error {
	put := func(p []byte) error {
		n, err := w.Write(p)
		if err != nil {
			return fmt.Errorf("Write of %d bytes failed after %d: %w", len(p), n, err)
		}
		if n != len(p) {
			return fmt.Errorf("Write of %d bytes returned %d and no error", len(p), n)
		}
		return nil
	}
	switch c.Write {
	case "bytes":
		for i := range data {
			if err := put(data[i : i+1]); err != nil {
				return err
			}
		}
		return nil
	case "splits":
		for k := 0; len(data) > 0; k++ {
			n := min(c.Splits[k%len(c.Splits)], len(data))
			if err := put(data[:n]); err != nil {
				return err
			}
			data = data[n:]
		}
		return nil
	}
	return put(data)
}

// ReadAll drains r through a buffer of c.ReadBuf bytes.
func (c Chunking) ReadAll(r io.Reader) ([]byte, error) {
	size := c.ReadBuf
	if size <= 0 {
		size = 4096
	}
	buf := make([]byte, size)
	var out []byte
	idle := 0
	for {
		n, err := r.Read(buf)
		if n < 0 || n > len(buf) {
			return out, fmt.Errorf("Read returned n=%d for a buffer of %d bytes", n, len(buf))
		}
		out = append(out, buf[:n]...)
		if err == io.EOF {
			return out, nil
		}
		if err != nil {
			return out, err
		}
		if n == 0 {
			idle++
			if idle > 1000 {
				return out, errors.New("Read makes no progress (1000 calls returned 0, nil)")
			}
		} else {
			idle = 0
		}
		if len(out) > 64<<20 {
			return out, errors.New("more than 64 MiB of output")
		}
	}
}

type chunkedSource struct {
	data   []byte
	splits []int
	k      int
}

func (s *chunkedSource) Read(p []byte) (int, error) {
	if len(s.data) == 0 {
		return 0, io.EOF
	}
	if len(p) == 0 {
		return 0, nil
	}
	n := 1
	if len(s.splits) > 0 {
		n = max(1, s.splits[s.k%len(s.splits)])
		s.k++
	}
	n = min(n, len(p), len(s.data))
	copy(p, s.data[:n])
	s.data = s.data[n:]
	return n, nil
}

// Source returns a reader which delivers enc the way the chunking says.
func (c Chunking) SourceReader(enc []byte) io.Reader {
	switch c.Source {
	case "one":
		return &chunkedSource{data: enc}
	case "splits":
		return &chunkedSource{data: enc, splits: c.Splits}
	}
	return bytes.NewReader(enc)
}

// Sink collects what an encoder writes and counts the Close calls.
type Sink struct {
	bytes.Buffer
	Closed int
}

// Close implements io.Closer.
func (s *Sink) Close() error { s.Closed++; return nil }

// ErrRejected marks a parameter set which the library's validation does not
// accept (Info or Encode fails).
type ErrRejected struct{ Err error }

func (e *ErrRejected) Error() string { return "rejected by validation: " + e.Err.Error() }
func (e *ErrRejected) Unwrap() error { return e.Err }

// Encode runs data through f.Encode at version v.  A parameter set counts
// as accepted iff Info and Encode both succeed; otherwise *ErrRejected is
// returned.  Every other error is a failure of an accepted filter.
func Encode(f pdf.Filter, v pdf.Version, data []byte, c Chunking) (enc []byte, name pdf.Name, parms pdf.Dict, err error) {
	name, parms, err = f.Info(v)
	if err != nil {
		return nil, "", nil, &ErrRejected{err}
	}
	sink := &Sink{}
	w, err := f.Encode(v, sink)
	if err != nil {
		return nil, "", nil, &ErrRejected{err}
	}
	if err := c.WriteAll(w, data); err != nil {
		return nil, name, parms, err
	}
	if err := w.Close(); err != nil {
		return nil, name, parms, fmt.Errorf("Close of the encoder failed: %w", err)
	}
	return sink.Bytes(), name, parms, nil
}

// Decode reads enc back through f.Decode with the working-memory budget
// pdf.DecodeStream would grant.
func Decode(f pdf.Filter, v pdf.Version, enc []byte, c Chunking) ([]byte, error) {
	budget := membudget.New(limits.StreamBudget(int64(len(enc))))
	r, err := f.Decode(v, c.SourceReader(enc), budget)
	if err != nil {
		return nil, fmt.Errorf("Decode failed: %w", err)
	}
	out, err := c.ReadAll(r)
	if err != nil {
		r.Close()
		return out, fmt.Errorf("Read failed after %d bytes: %w", len(out), err)
	}
	if err := r.Close(); err != nil {
		return out, fmt.Errorf("Close of the decoder failed: %w", err)
	}
	return out, nil
}
