// Package gen holds the rapid generators shared between checks.
package gen

import (
	"encoding/hex"
	"encoding/json"
	"fmt"
	"math"

	"pgregory.net/rapid"
	"seehuhn.de/go/pdf"
)

// Hex is a byte string which is stored as hex in JSON.
type Hex []byte

func (h Hex) MarshalJSON() ([]byte, error) {
	return json.Marshal(hex.EncodeToString(h))
}

func (h *Hex) UnmarshalJSON(b []byte) error {
	var s string
	if err := json.Unmarshal(b, &s); err != nil {
		return err
	}
	d, err := hex.DecodeString(s)
	if err != nil {
		return err
	}
	*h = d
	return nil
}

// KV is one dictionary entry.
type KV struct {
	K Hex `json:"k"`
	V O   `json:"v"`
}

// O is a JSON-serialisable PDF object tree.
//
// T is one of: null bool int real name str arr dict ref nilarr nildict
type O struct {
	T string `json:"t"`
	B bool   `json:"b,omitempty"`
	I int64  `json:"i,omitempty"`
	F uint64 `json:"f,omitempty"` // float64 bits
	S Hex    `json:"s,omitempty"`
	A []O    `json:"a,omitempty"`
	D []KV   `json:"d,omitempty"`
	N uint32 `json:"n,omitempty"`
	G uint16 `json:"g,omitempty"`
}

// PDF converts the tree to a pdf.Object.
func (o O) PDF() pdf.Object {
	// All strings of one tree are carved out of one buffer, one directly
	// behind the other, the way fields cut from an input line are: a callee
	// that writes behind the end of a string it was handed (into spare
	// capacity it does not own) damages the next string of the tree, which
	// the immutability checks and the read-back then see.
	return o.pdf(&arena{buf: make([]byte, 0, o.stringBytes())})
}

type arena struct{ buf []byte }

func (o O) stringBytes() int {
	n := len(o.S)
	if o.T != "str" {
		n = 0
	}
	for _, e := range o.A {
		n += e.stringBytes()
	}
	for _, kv := range o.D {
		n += kv.V.stringBytes()
	}
	return n
}

func (o O) pdf(ar *arena) pdf.Object {
	a := ar
	switch o.T {
	case "null", "":
		return nil
	case "bool":
		return pdf.Boolean(o.B)
	case "int":
		return pdf.Integer(o.I)
	case "real":
		return pdf.Real(math.Float64frombits(o.F))
	case "name":
		return pdf.Name(o.S)
	case "str":
		if o.S == nil {
			return pdf.String(nil)
		}
		start := len(a.buf)
		a.buf = append(a.buf, o.S...)
		return pdf.String(a.buf[start:len(a.buf)])
	case "arr":
		a := make(pdf.Array, len(o.A))
		for i, e := range o.A {
			a[i] = e.pdf(ar)
		}
		return a
	case "nilarr":
		return pdf.Array(nil)
	case "dict":
		d := make(pdf.Dict, len(o.D))
		for _, kv := range o.D {
			d[pdf.Name(kv.K)] = kv.V.pdf(a)
		}
		return d
	case "nildict":
		return pdf.Dict(nil)
	case "ref":
		return pdf.NewReference(o.N, o.G)
	}
	panic("gen: bad object tag " + o.T)
}

// FromPDF converts a native object (no streams) into a tree.
func FromPDF(obj pdf.Object) O {
	switch x := obj.(type) {
	case nil:
		return O{T: "null"}
	case pdf.Boolean:
		return O{T: "bool", B: bool(x)}
	case pdf.Integer:
		return O{T: "int", I: int64(x)}
	case pdf.Real:
		return O{T: "real", F: math.Float64bits(float64(x))}
	case pdf.Name:
		return O{T: "name", S: Hex(x)}
	case pdf.String:
		return O{T: "str", S: Hex(x)}
	case pdf.Array:
		if x == nil {
			return O{T: "nilarr"}
		}
		o := O{T: "arr", A: make([]O, len(x))}
		for i, e := range x {
			o.A[i] = FromPDF(e)
		}
		return o
	case pdf.Dict:
		if x == nil {
			return O{T: "nildict"}
		}
		o := O{T: "dict"}
		for _, k := range x.SortedKeys() {
			o.D = append(o.D, KV{K: Hex(k), V: FromPDF(x[k])})
		}
		return o
	case pdf.Reference:
		return O{T: "ref", N: x.Number(), G: x.Generation()}
	}
	return O{T: "name", S: Hex(fmt.Sprintf("?%T", obj))}
}

// Depth returns the nesting depth of the tree (scalars have depth 0).
func (o O) Depth() int {
	d := 0
	for _, e := range o.A {
		if x := e.Depth() + 1; x > d {
			d = x
		}
	}
	for _, kv := range o.D {
		if x := kv.V.Depth() + 1; x > d {
			d = x
		}
	}
	if (o.T == "arr" || o.T == "dict") && d == 0 {
		d = 1
	}
	return d
}

// ---------------------------------------------------------------------------
// scalar generators

var intEdges = []int64{0, 1, -1, 2, 9, 10, 99, 100, 255, 256, 65535, 65536,
	1<<31 - 1, 1 << 31, -(1 << 31), -(1 << 31) - 1, 1<<32 - 1, 1 << 32,
	1<<53 - 1, 1 << 53, 1<<53 + 1, -(1 << 53), math.MaxInt64, math.MinInt64,
	math.MaxInt64 - 1, math.MinInt64 + 1, 1000000000, 999999999, -1000000000,
	1000000000000000000, -1000000000000000000, 4294967295, 8388607, 8388608}

// Int draws an integer with emphasis on edge values.
func Int() *rapid.Generator[int64] {
	return rapid.OneOf(
		rapid.SampledFrom(intEdges),
		rapid.Int64Range(-1000, 1000),
		rapid.Int64(),
	)
}

var realEdges = []float64{0, math.Copysign(0, -1), 0.1, -0.1, 1.0 / 3, 5e-324, -5e-324,
	2.2250738585072014e-308, 2.225073858507201e-308, math.MaxFloat64, -math.MaxFloat64,
	1e15 - 1, 1e15, 1e15 + 1, 1e16, 1e17, 1e21, 1e22, 1e23, 1, -1, 2, 10, 100, 0.5, 0.25, 1e-5, 1e-6, 1e-7,
	123456789.125, 9007199254740992, 9007199254740993, 1e100, 1e-100, 1e300, 1e-300,
	0.30000000000000004, 4.35, 2.675, 1.7976931348623157e308, 4.9406564584124654e-324,
	9223372036854775807, 9223372036854775808, -9223372036854775808, 18446744073709551616,
	32767, 32768, 0.000001, 0.0000001, 72, 612, 792, 595.276, 841.89}

// Real draws a finite float64.
func Real() *rapid.Generator[float64] {
	return rapid.OneOf(
		rapid.SampledFrom(realEdges),
		rapid.Custom(func(t *rapid.T) float64 {
			for {
				f := math.Float64frombits(rapid.Uint64().Draw(t, "bits"))
				if !math.IsNaN(f) && !math.IsInf(f, 0) {
					return f
				}
			}
		}),
		rapid.Float64Range(-1000, 1000),
		rapid.Custom(func(t *rapid.T) float64 {
			// integers stored as reals, and short decimals
			n := rapid.Int64Range(-100000, 100000).Draw(t, "n")
			d := rapid.SampledFrom([]float64{1, 10, 100, 1000, 1e6}).Draw(t, "d")
			return float64(n) / d
		}),
	)
}

// HostileAlphabet lists the bytes which matter for delimiters and escaping.
var HostileAlphabet = []byte{'(', ')', '\\', '\r', '\n', '#', '/', '%', '<', '>',
	'[', ']', '{', '}', ' ', 0, 0x7f, 0x80, 0xff, 'a', '\t', '\f', '0', 'R', 'n', '~'}

// Bytes draws a byte string from one of three alphabets.  maxTail is the
// largest length which is drawn occasionally; most strings are short.
func Bytes(maxTail int) *rapid.Generator[[]byte] {
	return rapid.Custom(func(t *rapid.T) []byte {
		alpha := rapid.IntRange(0, 2).Draw(t, "alphabet")
		var n int
		if maxTail > 64 && rapid.IntRange(0, 99).Draw(t, "long") == 0 {
			n = rapid.IntRange(65, maxTail).Draw(t, "len")
		} else {
			n = rapid.IntRange(0, 64).Draw(t, "len")
			if n > 16 && rapid.Bool().Draw(t, "short") {
				n %= 8
			}
		}
		if n > 300 {
			// bulk: expand from a seed
			seed := rapid.Uint64().Draw(t, "seed")
			return expandBytes(seed, n, alpha)
		}
		b := make([]byte, n)
		for i := range b {
			switch alpha {
			case 0:
				b[i] = rapid.Byte().Draw(t, "b")
			case 1:
				b[i] = rapid.SampledFrom(HostileAlphabet).Draw(t, "b")
			default:
				b[i] = byte(rapid.IntRange(0x20, 0x7e).Draw(t, "b"))
			}
		}
		return b
	})
}

func expandBytes(seed uint64, n int, alpha int) []byte {
	b := make([]byte, n)
	s := seed
	next := func() uint64 {
		s += 0x9E3779B97F4A7C15
		z := s
		z = (z ^ (z >> 30)) * 0xBF58476D1CE4E5B9
		z = (z ^ (z >> 27)) * 0x94D049BB133111EB
		return z ^ (z >> 31)
	}
	for i := range b {
		v := next()
		switch alpha {
		case 0:
			b[i] = byte(v)
		case 1:
			b[i] = HostileAlphabet[v%uint64(len(HostileAlphabet))]
		default:
			b[i] = byte(0x20 + v%95)
		}
	}
	return b
}

// ObjOpts configures the tree generator.
type ObjOpts struct {
	MaxDepth   int  // nesting limit (default 5)
	NoRefs     bool // do not generate references
	NoNil      bool // do not generate nil arrays / dicts / nil dict entries
	MaxStr     int  // tail length for strings (default 2000)
	MaxName    int  // tail length for names (default 300)
	MaxWidth   int  // maximal number of children (default 6)
	RefNumbers []uint32
}

// Obj draws an object tree.
func Obj(opt ObjOpts) *rapid.Generator[O] {
	if opt.MaxDepth == 0 {
		opt.MaxDepth = 5
	}
	if opt.MaxStr == 0 {
		opt.MaxStr = 2000
	}
	if opt.MaxName == 0 {
		opt.MaxName = 300
	}
	if opt.MaxWidth == 0 {
		opt.MaxWidth = 6
	}
	return rapid.Custom(func(t *rapid.T) O {
		return drawObj(t, opt, opt.MaxDepth)
	})
}

func drawObj(t *rapid.T, opt ObjOpts, depth int) O {
	kinds := []string{"null", "bool", "int", "int", "real", "real", "name", "name", "str", "str", "str"}
	if !opt.NoRefs {
		kinds = append(kinds, "ref")
	}
	if depth > 0 {
		kinds = append(kinds, "arr", "arr", "dict", "dict")
		if !opt.NoNil {
			kinds = append(kinds, "nilarr", "nildict")
		}
	}
	k := rapid.SampledFrom(kinds).Draw(t, "kind")
	switch k {
	case "bool":
		return O{T: k, B: rapid.Bool().Draw(t, "b")}
	case "int":
		return O{T: k, I: Int().Draw(t, "i")}
	case "real":
		return O{T: k, F: math.Float64bits(Real().Draw(t, "f"))}
	case "name":
		return O{T: k, S: Hex(Bytes(opt.MaxName).Draw(t, "name"))}
	case "str":
		return O{T: k, S: Hex(Bytes(opt.MaxStr).Draw(t, "str"))}
	case "ref":
		if len(opt.RefNumbers) > 0 {
			return O{T: k, N: rapid.SampledFrom(opt.RefNumbers).Draw(t, "n")}
		}
		n := rapid.OneOf(rapid.Uint32Range(0, 50), rapid.Uint32Range(0, 1<<23-2)).Draw(t, "n")
		g := rapid.OneOf(rapid.Just(uint16(0)), rapid.Uint16()).Draw(t, "g")
		return O{T: k, N: n, G: g}
	case "arr":
		n := rapid.IntRange(0, opt.MaxWidth).Draw(t, "n")
		o := O{T: k, A: make([]O, n)}
		for i := range o.A {
			o.A[i] = drawObj(t, opt, depth-1)
		}
		return o
	case "dict":
		n := rapid.IntRange(0, opt.MaxWidth).Draw(t, "n")
		o := O{T: k}
		seen := map[string]bool{}
		for i := 0; i < n; i++ {
			key := Bytes(40).Draw(t, "key")
			if seen[string(key)] {
				continue
			}
			seen[string(key)] = true
			v := drawObj(t, opt, depth-1)
			if opt.NoNil && (v.T == "null") {
				v = O{T: "int", I: 0}
			}
			o.D = append(o.D, KV{K: Hex(key), V: v})
		}
		return o
	}
	return O{T: k}
}

// Deep returns an object nested to exactly the given depth, alternating arrays
// and dictionaries according to pattern bits.
func Deep(depth int, pattern uint64, leaf O) O {
	o := leaf
	for i := 0; i < depth; i++ {
		if pattern>>(uint(i)%64)&1 == 0 {
			o = O{T: "arr", A: []O{o}}
		} else {
			o = O{T: "dict", D: []KV{{K: Hex("K"), V: o}}}
		}
	}
	return o
}
