package wprog

import (
	"bytes"
	"errors"
	"fmt"
	"io"

	"seehuhn.de/go/pdf"
	"seehuhn.de/go/pdf/verif/internal/gen"
	"seehuhn.de/go/pdf/verif/internal/vt"
	"seehuhn.de/go/xmp"
)

// findingNilDict is the known finding of C01 which also shows through the
// file round trip: a nil Dict is written as "<<>>".
const findingNilDict = "C01-nil-dict"

// Want returns the value the reader is expected to return for a written tree.
func Want(o gen.O) pdf.Object {
	if vt.FindingOpen(findingNilDict) {
		return RelaxNilDict(o).PDF()
	}
	return o.PDF()
}

// RelaxNilDict replaces nil dictionaries by empty ones.
func RelaxNilDict(o gen.O) gen.O {
	switch o.T {
	case "nildict":
		return gen.O{T: "dict"}
	case "arr":
		a := make([]gen.O, len(o.A))
		for i, e := range o.A {
			a[i] = RelaxNilDict(e)
		}
		return gen.O{T: "arr", A: a}
	case "dict":
		d := make([]gen.KV, len(o.D))
		for i, kv := range o.D {
			d[i] = gen.KV{K: kv.K, V: RelaxNilDict(kv.V)}
		}
		return gen.O{T: "dict", D: d}
	}
	return o
}

// Passwords returns the passwords with which the file must open and give
// back everything.
func (p *Program) Passwords() []string {
	if !p.Encrypted() {
		return []string{""}
	}
	var pw []string
	pw = append(pw, p.UserPW) // possibly "": an empty user password needs no password
	if p.OwnerPW != "" {
		pw = append(pw, p.OwnerPW)
	}
	return pw
}

// VerifyRead opens data with the library's reader and compares everything
// the model knows with what the reader returns.
func VerifyRead(p *Program, res *Result, data []byte, password string) error {
	r, err := pdf.NewReader(bytes.NewReader(data), int64(len(data)), &pdf.ReaderOptions{Password: password})
	if err != nil {
		return fmt.Errorf("NewReader(password %q) failed: %v", password, err)
	}
	return VerifyGetter(p, res, r)
}

// VerifyGetter compares the model with what r returns.
func VerifyGetter(p *Program, res *Result, r *pdf.Reader) error {
	for _, e := range res.Entries {
		got, err := r.Get(e.Ref, true)
		if err != nil {
			return fmt.Errorf("Get(%s) failed: %v", e.Ref, err)
		}
		if err := CompareEntry(r, e, got); err != nil {
			return err
		}
		// a reference with another generation reads as null
		other := pdf.NewReference(e.Ref.Number(), e.Ref.Generation()+1)
		if g2, err := r.Get(other, true); err != nil || g2 != nil {
			return fmt.Errorf("Get(%s) (generation mismatch) = %s, %v; want null", other, vt.Show(g2), err)
		}
	}
	for _, ref := range res.Unwritten {
		got, err := r.Get(ref, true)
		if err != nil || got != nil {
			return fmt.Errorf("Get(%s) for a reference never written = %s, %v; want null", ref, vt.Show(got), err)
		}
	}
	return verifyMeta(p, res, r.GetMeta())
}

// CompareEntry compares one object as read with the model entry.
func CompareEntry(r pdf.Getter, e *Entry, got pdf.Native) error {
	if !e.IsStream {
		if _, isStm := got.(*pdf.Stream); isStm {
			return fmt.Errorf("object %s: wrote %s, read a stream", e.Ref, vt.Show(e.Obj.PDF()))
		}
		if err := vt.EqObj(Want(e.Obj), got); err != nil {
			return fmt.Errorf("object %s: %v", e.Ref, err)
		}
		return nil
	}
	stm, ok := got.(*pdf.Stream)
	if !ok {
		return fmt.Errorf("object %s: wrote a stream, read %s", e.Ref, vt.Show(got))
	}
	// caller keys must be there, nothing else but the framing keys
	want := Want(e.Dict).(pdf.Dict)
	have := pdf.Dict{}
	for k, v := range stm.Dict {
		switch k {
		case "Length", "Filter", "DecodeParms":
		default:
			have[k] = v
		}
	}
	if err := vt.EqObj(want, have); err != nil {
		return fmt.Errorf("stream %s dictionary: %v", e.Ref, err)
	}
	rd, err := pdf.DecodeStream(r, nil, stm)
	if err != nil {
		return fmt.Errorf("stream %s: DecodeStream failed: %v", e.Ref, err)
	}
	data, err := io.ReadAll(rd)
	cerr := rd.Close()
	if err != nil {
		return fmt.Errorf("stream %s: reading decoded data failed after %d bytes: %v", e.Ref, len(data), err)
	}
	if cerr != nil {
		return fmt.Errorf("stream %s: Close failed: %v", e.Ref, cerr)
	}
	if !bytes.Equal(data, e.Data) {
		return fmt.Errorf("stream %s (filters %v): decoded data differs: wrote %d bytes %q, read %d bytes %q",
			e.Ref, e.Filters, len(e.Data), clip(e.Data), len(data), clip(data))
	}
	// the same data once more, in small pieces
	k := vt.ChunkSizes[(int(e.Ref.Number())+len(e.Data))%len(vt.ChunkSizes)]
	rd, err = pdf.DecodeStream(r, nil, stm)
	if err != nil {
		return fmt.Errorf("stream %s: second DecodeStream failed: %v", e.Ref, err)
	}
	data, err = vt.ReadInChunks(rd, k)
	cerr = rd.Close()
	if err != nil {
		return fmt.Errorf("stream %s: reading decoded data %d bytes at a time failed after %d bytes: %v", e.Ref, k, len(data), err)
	}
	if cerr != nil {
		return fmt.Errorf("stream %s: Close after reading %d bytes at a time failed: %v", e.Ref, k, cerr)
	}
	if !bytes.Equal(data, e.Data) {
		return fmt.Errorf("stream %s (filters %v): read %d bytes at a time (until io.EOF) the decoded data differs: wrote %d bytes %q, read %d bytes %q",
			e.Ref, e.Filters, k, len(e.Data), clip(e.Data), len(data), clip(data))
	}
	// Length() must agree with what NewReader yields
	raw, err := io.ReadAll(stm.NewReader())
	if err != nil {
		return fmt.Errorf("stream %s: raw read failed: %v", e.Ref, err)
	}
	if int64(len(raw)) != stm.Length() {
		return fmt.Errorf("stream %s: Length() = %d but NewReader yields %d bytes", e.Ref, stm.Length(), len(raw))
	}
	return nil
}

func clip(b []byte) []byte {
	if len(b) > 60 {
		return append(append([]byte{}, b[:40]...), []byte("...")...)
	}
	return b
}

func verifyMeta(p *Program, res *Result, m *pdf.MetaInfo) error {
	wantVersion := Versions[p.Version]
	if p.CatVersion > 0 && Versions[p.CatVersion-1] > wantVersion {
		// a later version in the catalog overrides the header (ISO 32000 7.5.2)
		wantVersion = Versions[p.CatVersion-1]
	}
	if m.Version != wantVersion {
		return fmt.Errorf("version: header %s, catalog version index %d: read %s, want %s", Versions[p.Version], p.CatVersion, m.Version, wantVersion)
	}
	if m.Catalog != nil {
		var wantCat pdf.Version
		if p.CatVersion > 0 {
			wantCat = Versions[p.CatVersion-1]
		}
		if m.Catalog.Version != wantCat {
			return fmt.Errorf("Catalog.Version: wrote %v, read %v", wantCat, m.Catalog.Version)
		}
	}
	v := Versions[p.Version]
	needID := len(p.ID) > 0 || p.Encrypted() || v >= pdf.V2_0
	switch {
	case !needID:
		if m.ID != nil {
			return fmt.Errorf("ID: none written, read %x", m.ID)
		}
	default:
		if len(m.ID) != 2 {
			return fmt.Errorf("ID: want two parts, read %x", m.ID)
		}
		for i, id := range p.ID {
			if i < 2 && !bytes.Equal(id, m.ID[i]) {
				return fmt.Errorf("ID[%d]: wrote %x, read %x", i, []byte(id), m.ID[i])
			}
		}
		for i := len(p.ID); i < 2; i++ {
			if len(m.ID[i]) < 16 {
				return fmt.Errorf("ID[%d]: invented part is %d bytes long, want >= 16", i, len(m.ID[i]))
			}
		}
	}
	if p.Title != "" || p.Author != "" || len(p.Custom) > 0 {
		if m.Info == nil {
			return errors.New("Info: written but not read back")
		}
		if string(m.Info.Title) != p.Title || string(m.Info.Author) != p.Author {
			return fmt.Errorf("Info: wrote title %q author %q, read %q %q", p.Title, p.Author, m.Info.Title, m.Info.Author)
		}
		for _, kv := range p.Custom {
			if m.Info.Custom[kv[0]] != kv[1] {
				return fmt.Errorf("Info custom key %q: wrote %q, read %q", kv[0], kv[1], m.Info.Custom[kv[0]])
			}
		}
		if len(m.Info.Custom) != len(p.Custom) {
			return fmt.Errorf("Info: %d custom keys read, %d written", len(m.Info.Custom), len(p.Custom))
		}
	} else if m.Info != nil {
		return fmt.Errorf("Info: none written, read %+v", *m.Info)
	}
	if m.Catalog == nil {
		return errors.New("Catalog missing")
	}
	if m.Catalog.Pages != res.PagesRef {
		return fmt.Errorf("Catalog.Pages: wrote %s, read %s", res.PagesRef, m.Catalog.Pages)
	}
	if p.MetaTitle != "" {
		if m.Catalog.Metadata == nil || m.Catalog.Metadata.Data == nil {
			return errors.New("Catalog.Metadata: written but not read back")
		}
		var dc xmp.DublinCore
		if err := m.Catalog.Metadata.Data.Get(&dc); err != nil {
			return fmt.Errorf("Catalog.Metadata: cannot read Dublin Core properties: %v", err)
		}
		if got := dc.Title.Default.String(); got != p.MetaTitle {
			return fmt.Errorf("Catalog.Metadata: wrote dc:title %q, read %q", p.MetaTitle, got)
		}
	} else if m.Catalog.Metadata != nil {
		return errors.New("Catalog.Metadata: none written, but read one")
	}
	if string(m.Catalog.PageLayout) != p.PageLayout || string(m.Catalog.PageMode) != p.PageMode {
		return fmt.Errorf("Catalog: wrote PageLayout %q PageMode %q, read %q %q", p.PageLayout, p.PageMode, m.Catalog.PageLayout, m.Catalog.PageMode)
	}
	return nil
}
