// Package wprog generates and executes "write programs": sequences of
// operations on a pdf.Writer together with the model of what the resulting
// file must contain.  It is shared by the checks C02, C03, C19 and C20.
package wprog

import (
	"bytes"
	"errors"
	"fmt"
	"io"
	"os"
	"path/filepath"
	"reflect"
	"sort"
	"sync/atomic"

	"golang.org/x/text/language"
	"pgregory.net/rapid"
	"seehuhn.de/go/pdf"
	"seehuhn.de/go/pdf/verif/internal/gen"
	"seehuhn.de/go/pdf/verif/internal/vt"
	"seehuhn.de/go/xmp"
)

// FindingSparseXRef is the id of the known finding "the Reader rejects a
// cross-reference stream written by the Writer when the object numbers are
// sparse": limits.MaxXRefEntries allows 8192 + 32 entries per byte of the
// compressed stream, and a table of mostly free entries compresses far
// better than that.
const FindingSparseXRef = "C02-sparse-xref-stream"

// Versions lists the nine PDF versions.
var Versions = []pdf.Version{pdf.V1_0, pdf.V1_1, pdf.V1_2, pdf.V1_3, pdf.V1_4, pdf.V1_5, pdf.V1_6, pdf.V1_7, pdf.V2_0}

// Program is a JSON-serialisable write program.
type Program struct {
	Version       int         `json:"version"` // index into Versions
	HumanReadable bool        `json:"human_readable"`
	Seekable      bool        `json:"seekable"`
	ViaCreate     bool        `json:"via_create,omitempty"` // write through pdf.Create to a named file which already holds a longer, older file
	UserPW        string      `json:"user_pw,omitempty"`
	OwnerPW       string      `json:"owner_pw,omitempty"`
	Perm          uint32      `json:"perm,omitempty"`
	ID            []gen.Hex   `json:"id,omitempty"`
	Title         string      `json:"title,omitempty"`
	Author        string      `json:"author,omitempty"`
	Custom        [][2]string `json:"custom,omitempty"`
	PageLayout    string      `json:"page_layout,omitempty"`
	PageMode      string      `json:"page_mode,omitempty"`
	CatVersion    int         `json:"cat_version,omitempty"` // Catalog.Version: 0 = unset, else index into Versions + 1
	PagesLate     bool        `json:"pages_late,omitempty"`  // write the /Pages object last
	MetaTitle     string      `json:"meta_title,omitempty"`  // document-level XMP metadata (dc:title); "" = none
	MetaPlain     bool        `json:"meta_plain,omitempty"`  // MetadataStream.Plaintext
	// SparseCapped counts the explicit references whose distance was cut
	// down because of the open known finding C02-sparse-xref-stream.
	SparseCapped int      `json:"sparse_capped,omitempty"`
	Actions      []Action `json:"actions"`
}

// Action is one step of a program.
//
// Op is one of
//
//	alloc       allocate a reference which stays unwritten unless a later
//	            action with RefKind "pre" picks it up
//	put         Put(ref, object)
//	putstream   Put(ref, pdf.NewStream(dict, data))
//	compressed  WriteCompressed(refs, objects...)
//	stream      OpenStream(ref, dict, filters...), Write in chunks, Close;
//	            the actions in During are issued while the stream is open
//	reput       Put(new ref, the very same Go value as used by action Src)
//	reputstream Put(new ref, the very same *pdf.Stream object as used by an earlier putstream action)
//	bulk        N Puts of small objects expanded from Seed (large cross-reference data)
//	putbad      Put under object number 0 (Src == 0) or under the reference of an earlier entry: the Writer has to refuse it
type Action struct {
	Op      string   `json:"op"`
	RefKind string   `json:"ref_kind,omitempty"` // alloc | pre | explicit
	Pre     int      `json:"pre,omitempty"`      // which pending allocation to use (modulo)
	Delta   uint32   `json:"delta,omitempty"`    // explicit: number = fresh Alloc + Delta
	Gen     uint16   `json:"gen,omitempty"`      // explicit: generation
	Obj     *gen.O   `json:"obj,omitempty"`
	Objs    []gen.O  `json:"objs,omitempty"` // compressed
	Dict    *gen.O   `json:"dict,omitempty"` // stream dictionary (caller keys)
	Data    gen.Hex  `json:"data,omitempty"`
	Filters []string `json:"filters,omitempty"`
	Chunks  []int    `json:"chunks,omitempty"` // write chunk sizes (cyclic); empty = one Write
	GiveLen bool     `json:"give_len,omitempty"`
	During  []Action `json:"during,omitempty"`
	Src     int      `json:"src,omitempty"`  // reput: index of an earlier put action (modulo)
	N       int      `json:"n,omitempty"`    // bulk: number of objects
	Seed    uint64   `json:"seed,omitempty"` // bulk: expander seed
}

// bulkObject returns the k-th object of a bulk action.
func bulkObject(seed uint64, k int) gen.O {
	r := vt.NewRand(seed + uint64(k)*0x9E3779B97F4A7C15)
	switch r.Intn(4) {
	case 0:
		return gen.O{T: "int", I: int64(r.Intn(100000)) - 500}
	case 1:
		return gen.O{T: "str", S: gen.Hex(r.Bytes(r.Intn(12)))}
	case 2:
		return gen.O{T: "dict", D: []gen.KV{{K: gen.Hex("K"), V: gen.O{T: "int", I: int64(k)}}, {K: gen.Hex("Next"), V: gen.O{T: "ref", N: uint32(1 + r.Intn(k+5))}}}}
	}
	return gen.O{T: "arr", A: []gen.O{{T: "int", I: int64(k)}, {T: "name", S: gen.Hex("N")}}}
}

// Entry is what the model expects to find under a reference.
type Entry struct {
	Ref      pdf.Reference
	IsStream bool
	Obj      gen.O  // value (non-stream)
	Dict     gen.O  // caller keys of the stream dictionary
	Data     []byte // decoded stream data
	Filters  []string
	InObjStm bool // written through WriteCompressed (may still be a plain object when object streams are off)
	Deferred bool // issued while a stream was open
	Reused   bool
}

// Result is the outcome of running a program.
type Result struct {
	Data      []byte
	Entries   []*Entry        // in the order written
	Unwritten []pdf.Reference // allocated by the program, never written
	PagesRef  pdf.Reference
	WriterErr error  // first error returned by a Writer call (nil for an accepted program)
	ErrAt     string // which call failed
	Mutated   error  // set if a caller-owned value was modified by the Writer
	// BadRefused / BadAccepted count the "putbad" actions the Writer refused
	// (as it should) and accepted.
	BadRefused, BadAccepted int
	IDUsed                  [][]byte
	Writes                  int // number of Write calls the sink saw
	Seeks                   int
	MaxChain                int
	LengthVia               map[string]int
}

// Sink is the destination of a program run.  Failing sinks for C19 implement
// it as well.
type Sink interface {
	io.Writer
}

// MemSeekable is an in-memory io.WriteSeeker (and ReaderAt).
type MemSeekable struct {
	Buf    []byte
	pos    int64
	Writes int
	Seeks  int
	// Fail, if set, is consulted before every Write and Seek with the running
	// call index (1-based, Write and Seek counted together).
	Fail func(call int, kind string) error
	call int
}

func (m *MemSeekable) Write(p []byte) (int, error) {
	m.call++
	m.Writes++
	if m.Fail != nil {
		if err := m.Fail(m.call, "write"); err != nil {
			return 0, err
		}
	}
	end := m.pos + int64(len(p))
	if end > int64(len(m.Buf)) {
		m.Buf = append(m.Buf, make([]byte, end-int64(len(m.Buf)))...)
	}
	copy(m.Buf[m.pos:], p)
	m.pos = end
	return len(p), nil
}

func (m *MemSeekable) Seek(offset int64, whence int) (int64, error) {
	m.call++
	m.Seeks++
	if m.Fail != nil {
		if err := m.Fail(m.call, "seek"); err != nil {
			return 0, err
		}
	}
	var np int64
	switch whence {
	case io.SeekStart:
		np = offset
	case io.SeekCurrent:
		np = m.pos + offset
	case io.SeekEnd:
		np = int64(len(m.Buf)) + offset
	}
	if np < 0 {
		return 0, errors.New("negative position")
	}
	m.pos = np
	return np, nil
}

// Calls returns the number of Write and Seek calls seen.
func (m *MemSeekable) Calls() int { return m.call }

// MemStream is an in-memory io.Writer which cannot seek.
type MemStream struct {
	inner MemSeekable
}

func (m *MemStream) Write(p []byte) (int, error) { return m.inner.Write(p) }

// SetFail installs a fault function.
func (m *MemStream) SetFail(f func(call int, kind string) error) { m.inner.Fail = f }

// Bytes returns what was written.
func (m *MemStream) Bytes() []byte { return m.inner.Buf }

// Calls returns the number of Write calls seen.
func (m *MemStream) Calls() int { return m.inner.call }

// MemFlusher is a non-seekable in-memory sink which also has a Flush method.
// pdf.NewWriter uses such a sink directly (without a bufio.Writer of its
// own), so every Write of the Writer reaches the sink unbuffered.
type MemFlusher struct {
	MemStream
	Flushes int
}

// Flush implements the writeFlusher interface the Writer looks for.
func (m *MemFlusher) Flush() error {
	m.Flushes++
	if m.inner.Fail != nil {
		m.inner.call++
		if err := m.inner.Fail(m.inner.call, "flush"); err != nil {
			return err
		}
	}
	return nil
}

// MakeFilter maps a filter tag to a filter value.
func MakeFilter(tag string) pdf.Filter {
	switch tag {
	case "a85":
		return pdf.FilterASCII85{}
	case "ahx":
		return pdf.FilterASCIIHex{}
	case "rl":
		return pdf.FilterRunLength{}
	case "fl":
		return pdf.FilterFlate{}
	case "fl12":
		return pdf.FilterFlate{Predictor: 12, Columns: 5}
	case "fl2":
		return pdf.FilterFlate{Predictor: 2, Columns: 5}
	case "lzw":
		return pdf.FilterLZW{}
	case "lzw1":
		return pdf.FilterLZW{OffByOne: true}
	case "cmp":
		return pdf.FilterCompress{}
	}
	panic("wprog: unknown filter tag " + tag)
}

func filterOK(tag string, v pdf.Version) bool {
	switch tag {
	case "fl", "fl12", "fl2":
		return v >= pdf.V1_2
	}
	return true
}

func rowLen(tag string) int {
	if tag == "fl12" || tag == "fl2" {
		return 5
	}
	return 1
}

// Run executes the program on the given sink.  The sink must be a
// *MemSeekable or a *MemStream (or any io.Writer for fault injection); Data
// is filled from them when possible.
func (p *Program) Run(sink io.Writer) *Result {
	res := &Result{LengthVia: map[string]int{}}
	v := Versions[p.Version]
	opt := &pdf.WriterOptions{
		HumanReadable:   p.HumanReadable,
		UserPassword:    p.UserPW,
		OwnerPassword:   p.OwnerPW,
		UserPermissions: pdf.Perm(p.Perm),
	}
	var idCopy [][]byte
	if len(p.ID) > 0 {
		for _, id := range p.ID {
			opt.ID = append(opt.ID, append([]byte{}, id...))
			idCopy = append(idCopy, append([]byte{}, id...))
		}
	}
	if p.MetaTitle != "" {
		packet := xmp.NewPacket()
		dc := &xmp.DublinCore{}
		dc.Title.Set(language.Und, p.MetaTitle)
		if err := packet.Set(dc); err != nil {
			panic(err)
		}
		opt.DocumentMetadata = &pdf.MetadataStream{Data: packet, Plaintext: p.MetaPlain}
	}
	fail := func(at string, err error) *Result {
		res.WriterErr = err
		res.ErrAt = at
		res.fill(sink)
		return res
	}
	optBefore := *opt
	defer func() {
		if res.Mutated == nil && (opt.UserPassword != optBefore.UserPassword || opt.OwnerPassword != optBefore.OwnerPassword ||
			opt.UserPermissions != optBefore.UserPermissions || opt.HumanReadable != optBefore.HumanReadable ||
			opt.DocumentMetadata != optBefore.DocumentMetadata) {
			res.Mutated = fmt.Errorf("the Writer modified the caller's WriterOptions: user %q -> %q, owner %q -> %q",
				optBefore.UserPassword, opt.UserPassword, optBefore.OwnerPassword, opt.OwnerPassword)
		}
	}()
	var w *pdf.Writer
	var err error
	if fs, isFile := sink.(*FileSink); isFile {
		// the path already holds an older, longer file
		if err := os.WriteFile(fs.Path, staleFile(fs.Prefill), 0o666); err != nil {
			panic("wprog: cannot prepare " + fs.Path + ": " + err.Error())
		}
		w, err = pdf.Create(fs.Path, v, opt)
	} else {
		w, err = pdf.NewWriter(sink, v, opt)
	}
	if err != nil {
		return fail("NewWriter", err)
	}
	meta := w.GetMeta()
	if p.Title != "" || p.Author != "" || len(p.Custom) > 0 {
		meta.Info.Title = pdf.TextString(p.Title)
		meta.Info.Author = pdf.TextString(p.Author)
		if len(p.Custom) > 0 {
			meta.Info.Custom = map[string]string{}
			for _, kv := range p.Custom {
				meta.Info.Custom[kv[0]] = kv[1]
			}
		}
	} else {
		meta.Info = nil
	}
	meta.Catalog.PageLayout = pdf.Name(p.PageLayout)
	meta.Catalog.PageMode = pdf.Name(p.PageMode)
	if p.CatVersion > 0 {
		meta.Catalog.Version = Versions[p.CatVersion-1]
	}
	res.IDUsed = meta.ID

	res.PagesRef = w.Alloc()
	meta.Catalog.Pages = res.PagesRef
	pagesDict := pdf.Dict{"Type": pdf.Name("Pages"), "Kids": pdf.Array{}, "Count": pdf.Integer(0)}
	if !p.PagesLate {
		if err := w.Put(res.PagesRef, pagesDict); err != nil {
			return fail("Put(pages)", err)
		}
	}

	var pending []pdf.Reference // allocated, not yet written
	type owned struct {
		val  pdf.Object // the value handed to the Writer
		tree gen.O
	}
	var handed []owned
	var putVals []owned // values of put actions, for reput
	type ownedStream struct {
		stm  *pdf.Stream
		dict gen.O
		data []byte
	}
	var putStreams []ownedStream // stream objects of putstream actions, for reputstream

	inOpenStream := false
	getRef := func(a *Action) pdf.Reference {
		kind := a.RefKind
		if kind == "explicit" && inOpenStream {
			// A Put issued while a stream is open is deferred, so its number
			// is not registered yet and a later Alloc could hand out the same
			// number.  Choosing numbers by hand is only sound outside.
			kind = "alloc"
		}
		switch kind {
		case "pre":
			if len(pending) > 0 {
				i := a.Pre % len(pending)
				r := pending[i]
				pending = append(pending[:i], pending[i+1:]...)
				return r
			}
			return w.Alloc()
		case "explicit":
			base := w.Alloc()
			pending = append(pending, base)
			d := a.Delta
			if d == 0 {
				d = 1
			}
			return pdf.NewReference(base.Number()+d, a.Gen)
		default:
			return w.Alloc()
		}
	}

	var exec func(a *Action, inStream bool) (string, error)
	exec = func(a *Action, inStream bool) (string, error) {
		inOpenStream = inStream
		defer func() { inOpenStream = false }()
		switch a.Op {
		case "alloc":
			pending = append(pending, w.Alloc())
		case "putbad":
			// A Put the Writer has to refuse: object number 0 (the head of
			// the free list; also what a forgotten Alloc leaves in a zero
			// Reference), or a number that has been written already.  The
			// refusal leaves the Writer usable.  (Not generated while a stream
			// is open: the Put is deferred then, and its refusal surfaces as
			// the error of the stream's Close.)  Should the Writer accept
			// it, the object is recorded like any other and the file is
			// judged as it stands.
			ref := pdf.NewReference(0, a.Gen)
			if a.Src > 0 && len(res.Entries) > 0 {
				ref = res.Entries[(a.Src-1)%len(res.Entries)].Ref
			}
			val := a.Obj.PDF()
			if a.Src < 0 {
				// WriteCompressed with a non-zero generation under a number
				// above everything allocated so far: members of object
				// streams have generation 0, so this has to be refused too
				free := w.Alloc()
				pending = append(pending, free)
				g := a.Gen
				if g == 0 {
					g = 1
				}
				ref = pdf.NewReference(free.Number()+uint32(-a.Src), g)
				if err := w.WriteCompressed([]pdf.Reference{ref}, val); err == nil {
					res.BadAccepted++
					res.Entries = append(res.Entries, &Entry{Ref: ref, Obj: *a.Obj, InObjStm: true})
				} else {
					res.BadRefused++
				}
				break
			}
			if err := w.Put(ref, val); err == nil {
				res.BadAccepted++
				res.Entries = append(res.Entries, &Entry{Ref: ref, Obj: *a.Obj, Deferred: inStream})
			} else {
				res.BadRefused++
			}
		case "put":
			ref := getRef(a)
			val := a.Obj.PDF()
			handed = append(handed, owned{val, *a.Obj})
			putVals = append(putVals, owned{val, *a.Obj})
			if err := w.Put(ref, val); err != nil {
				return "Put", err
			}
			res.Entries = append(res.Entries, &Entry{Ref: ref, Obj: *a.Obj, Deferred: inStream})
		case "bulk":
			for k := 0; k < a.N; k++ {
				tree := bulkObject(a.Seed, k)
				ref := w.Alloc()
				if err := w.Put(ref, tree.PDF()); err != nil {
					return "Put(bulk)", err
				}
				res.Entries = append(res.Entries, &Entry{Ref: ref, Obj: tree, Deferred: inStream})
			}
		case "reput":
			if len(putVals) == 0 {
				return "", nil
			}
			src := putVals[a.Src%len(putVals)]
			ref := getRef(a)
			if err := w.Put(ref, src.val); err != nil {
				return "Put(reused value)", err
			}
			res.Entries = append(res.Entries, &Entry{Ref: ref, Obj: src.tree, Deferred: inStream, Reused: true})
		case "putstream":
			ref := getRef(a)
			d := a.Dict.PDF().(pdf.Dict)
			handed = append(handed, owned{d, *a.Dict})
			data := append([]byte{}, a.Data...)
			stm := pdf.NewStream(d, data)
			if err := w.Put(ref, stm); err != nil {
				return "Put(stream)", err
			}
			if !bytes.Equal(data, a.Data) {
				res.Mutated = fmt.Errorf("Put(stream) modified the data slice handed to NewStream")
			}
			putStreams = append(putStreams, ownedStream{stm, *a.Dict, a.Data})
			res.Entries = append(res.Entries, &Entry{Ref: ref, IsStream: true, Dict: *a.Dict, Data: a.Data, Deferred: inStream})
		case "reputstream":
			if len(putStreams) == 0 {
				return "", nil
			}
			src := putStreams[a.Src%len(putStreams)]
			ref := getRef(a)
			if err := w.Put(ref, src.stm); err != nil {
				return "Put(reused stream object)", err
			}
			res.Entries = append(res.Entries, &Entry{Ref: ref, IsStream: true, Dict: src.dict, Data: src.data, Deferred: inStream, Reused: true})
		case "compressed":
			if inStream {
				return "", nil // documented as an error while a stream is open; not generated
			}
			var refs []pdf.Reference
			var objs []pdf.Object
			var explicitBase pdf.Reference
			for i := range a.Objs {
				sub := Action{RefKind: a.RefKind, Pre: a.Pre + i}
				if a.RefKind == "explicit" {
					// caller-chosen numbers, generation 0 (object streams
					// cannot hold other generations)
					if i == 0 {
						explicitBase = w.Alloc()
						pending = append(pending, explicitBase)
					}
					d := a.Delta
					if d == 0 {
						d = 1
					}
					refs = append(refs, pdf.NewReference(explicitBase.Number()+d+uint32(i), 0))
					val := a.Objs[i].PDF()
					handed = append(handed, owned{val, a.Objs[i]})
					objs = append(objs, val)
					continue
				}
				refs = append(refs, getRef(&sub))
				val := a.Objs[i].PDF()
				handed = append(handed, owned{val, a.Objs[i]})
				objs = append(objs, val)
			}
			if err := w.WriteCompressed(refs, objs...); err != nil {
				return "WriteCompressed", err
			}
			for i := range a.Objs {
				res.Entries = append(res.Entries, &Entry{Ref: refs[i], Obj: a.Objs[i], InObjStm: true})
			}
		case "stream":
			if inStream {
				return "", nil
			}
			ref := getRef(a)
			d := a.Dict.PDF().(pdf.Dict)
			if a.GiveLen {
				d["Length"] = pdf.Integer(len(a.Data))
			}
			handedDict := a.Dict.PDF().(pdf.Dict)
			if a.GiveLen {
				handedDict["Length"] = pdf.Integer(len(a.Data))
			}
			var filters []pdf.Filter
			for _, tag := range a.Filters {
				filters = append(filters, MakeFilter(tag))
			}
			if len(filters) > res.MaxChain {
				res.MaxChain = len(filters)
			}
			ws, err := w.OpenStream(ref, d, filters...)
			if err != nil {
				return "OpenStream", err
			}
			if !reflect.DeepEqual(d, handedDict) {
				res.Mutated = fmt.Errorf("OpenStream modified the caller's dictionary: %v -> %v", handedDict, d)
			}
			data := append([]byte{}, a.Data...)
			pos := 0
			ci := 0
			duringAt := len(data) / 2
			duringDone := false
			runDuring := func() (string, error) {
				duringDone = true
				for i := range a.During {
					if at, err := exec(&a.During[i], true); err != nil {
						return at + " (during open stream)", err
					}
				}
				return "", nil
			}
			for pos < len(data) {
				n := len(data) - pos
				if len(a.Chunks) > 0 {
					c := a.Chunks[ci%len(a.Chunks)]
					ci++
					if c < 1 {
						c = 1
					}
					if c < n {
						n = c
					}
				}
				if !duringDone && pos >= duringAt {
					if at, err := runDuring(); err != nil {
						return at, err
					}
				}
				if _, err := ws.Write(data[pos : pos+n]); err != nil {
					return "stream Write", err
				}
				pos += n
			}
			if !duringDone {
				if at, err := runDuring(); err != nil {
					return at, err
				}
			}
			if err := ws.Close(); err != nil {
				return "stream Close", err
			}
			if !bytes.Equal(data, a.Data) {
				res.Mutated = fmt.Errorf("stream Write modified the caller's data")
			}
			if !reflect.DeepEqual(d, handedDict) {
				res.Mutated = fmt.Errorf("writing the stream modified the caller's dictionary: %v -> %v", handedDict, d)
			}
			// entries of deferred puts were appended by exec; the stream itself:
			res.Entries = append(res.Entries, &Entry{Ref: ref, IsStream: true, Dict: *a.Dict, Data: a.Data, Filters: a.Filters})
		default:
			panic("wprog: unknown op " + a.Op)
		}
		return "", nil
	}

	for i := range p.Actions {
		if at, err := exec(&p.Actions[i], false); err != nil {
			return fail(fmt.Sprintf("action %d: %s", i, at), err)
		}
	}
	if p.PagesLate {
		if err := w.Put(res.PagesRef, pagesDict); err != nil {
			return fail("Put(pages)", err)
		}
	}
	if err := w.Close(); err != nil {
		return fail("Close", err)
	}
	res.Unwritten = pending

	// immutability of caller-owned values
	for _, h := range handed {
		if !reflect.DeepEqual(h.val, h.tree.PDF()) {
			res.Mutated = fmt.Errorf("the Writer modified a caller-owned value: now %s, was %s",
				vt.Show(h.val), vt.Show(h.tree.PDF()))
			break
		}
	}
	for i, id := range idCopy {
		if !bytes.Equal(id, opt.ID[i]) {
			res.Mutated = fmt.Errorf("the Writer modified WriterOptions.ID")
		}
	}
	res.fill(sink)
	return res
}

func (r *Result) fill(sink io.Writer) {
	switch s := sink.(type) {
	case *MemSeekable:
		r.Data = s.Buf
		r.Writes, r.Seeks = s.Writes, s.Seeks
	case *MemFlusher:
		r.Data = s.inner.Buf
		r.Writes = s.inner.Writes
	case *MemStream:
		r.Data = s.inner.Buf
		r.Writes = s.inner.Writes
	case *FileSink:
		data, err := os.ReadFile(s.Path)
		if err != nil {
			panic("wprog: cannot read back " + s.Path + ": " + err.Error())
		}
		r.Data = data
		os.Remove(s.Path)
	case interface{ Bytes() []byte }:
		r.Data = s.Bytes()
	}
}

// FileSink stands for a named file written through pdf.Create.  Before the
// Writer is created the file is filled with Prefill bytes which end like a
// PDF file, as if an older, longer document were being replaced.
type FileSink struct {
	Path    string
	Prefill int
}

// Write is never called: Run hands the path to pdf.Create.
func (*FileSink) Write(p []byte) (int, error) {
	panic("wprog: FileSink is written through pdf.Create")
}

var fileSinkSeq atomic.Int64

func newFileSink() *FileSink {
	dir := os.Getenv("VERIF_WORK")
	if dir == "" {
		dir = os.TempDir()
	}
	return &FileSink{Path: filepath.Join(dir, fmt.Sprintf("wprog-%d-%d.pdf", os.Getpid(), fileSinkSeq.Add(1))), Prefill: 300000}
}

func staleFile(n int) []byte {
	tail := []byte("\n7 0 obj\n<</Stale true>>\nendobj\nxref\n0 1\n0000000000 65535 f\r\ntrailer\n<</Size 1>>\nstartxref\n12345\n%%EOF\n")
	b := bytes.Repeat([]byte("% an older, longer file\n"), n/24+1)[:n]
	copy(b[len(b)-len(tail):], tail)
	return b
}

// NewSink returns a fresh sink of the kind the program asks for.
func (p *Program) NewSink() io.Writer {
	if p.ViaCreate {
		return newFileSink()
	}
	if p.Seekable {
		return &MemSeekable{}
	}
	return &MemStream{}
}

// Encrypted reports whether the program asks for encryption.
func (p *Program) Encrypted() bool { return p.UserPW != "" || p.OwnerPW != "" }

// Cipher names the cipher the Writer selects for this program.
func (p *Program) Cipher() string {
	if !p.Encrypted() {
		return "none"
	}
	v := Versions[p.Version]
	switch {
	case v >= pdf.V2_0:
		return "AES-256"
	case v >= pdf.V1_6:
		return "AES-128"
	case v >= pdf.V1_4:
		return "RC4-128"
	}
	return "RC4-40"
}

// ---------------------------------------------------------------------------
// generator

// Opts configures the program generator.
type Opts struct {
	MaxActions          int    // default 12
	NoEncryption        bool   // C20
	NoCompressed        bool   // C20: no object streams
	MaxData             int    // largest stream body (default 70000)
	ForbidHeaders       bool   // C20: no line-initial "N G obj" inside strings and stream data
	SmallObjects        bool   // keep object trees small
	MaxDelta            uint32 // if > 0: largest distance of an explicit object number (each skipped number costs a 20-byte xref line)
	NoFileSink          bool   // never write through pdf.Create to a named file
	NoBadPuts           bool   // do not generate "putbad" actions (Puts the Writer has to refuse)
	AllowBulk           bool   // allow "bulk" actions (hundreds to thousands of small objects)
	IgnoreSparseFinding bool   // do not cut sparse numbering down for xref-stream files (checks which never use the library's Reader)
	AllowSparse         bool   // allow explicit object numbers 70000 above the allocated ones (files of > 1 MB with xref tables)
}

var bodyWords = [][]byte{[]byte("endstream"), []byte("\nendstream"), []byte("\r\nendstream\n"), []byte("endobj"),
	[]byte("\nendobj\n"), []byte("stream\n"), []byte("\r"), []byte("\n"), []byte("\r\n"), []byte(" 0 obj"), []byte("7 0 obj\n"),
	[]byte("startxref\n0\n%%EOF\n"), []byte("xref\n"), []byte("trailer\n<<>>"), []byte("%PDF-1.4\n"), []byte("<</Length 3>>"), []byte("~>"), []byte(">"), []byte("\x00\x80\x80\x01")}

// Body draws a stream body which likes framing keywords and EOL bytes at its
// edges.  Lengths concentrate around the writer's 1024-byte buffering
// threshold.
func Body(maxLen int, rowLen int) *rapid.Generator[[]byte] {
	return rapid.Custom(func(t *rapid.T) []byte {
		var n int
		switch rapid.IntRange(0, 9).Draw(t, "lenclass") {
		case 0:
			n = rapid.SampledFrom([]int{0, 1, 2}).Draw(t, "n")
		case 1, 2:
			n = rapid.IntRange(1000, 1050).Draw(t, "n")
		case 3:
			if maxLen > 2000 {
				n = rapid.IntRange(2000, maxLen).Draw(t, "n")
			} else {
				n = rapid.IntRange(0, maxLen).Draw(t, "n")
			}
		default:
			n = rapid.IntRange(0, 300).Draw(t, "n")
		}
		if n > maxLen {
			n = maxLen
		}
		seed := rapid.Uint64().Draw(t, "seed")
		style := rapid.IntRange(0, 3).Draw(t, "style")
		rnd := vt.NewRand(seed)
		var b []byte
		switch style {
		case 0: // random bytes
			b = rnd.Bytes(n)
		case 1: // text made of words
			for len(b) < n {
				if rnd.Intn(3) == 0 {
					b = append(b, bodyWords[rnd.Intn(len(bodyWords))]...)
				} else {
					b = append(b, byte('a'+rnd.Intn(26)))
				}
			}
			b = b[:n]
		case 2: // long runs (compressible)
			for len(b) < n {
				c := byte(rnd.Intn(4))
				k := 1 + rnd.Intn(400)
				for i := 0; i < k; i++ {
					b = append(b, c)
				}
			}
			b = b[:n]
		default: // printable
			b = make([]byte, n)
			for i := range b {
				b[i] = byte(0x20 + rnd.Intn(95))
			}
		}
		// hostile edges
		edge := rapid.IntRange(0, 7).Draw(t, "edge")
		put := func(at int, w []byte) {
			if at < 0 {
				at = 0
			}
			if at+len(w) <= len(b) {
				copy(b[at:], w)
			}
		}
		switch edge {
		case 0:
			put(0, []byte("\n"))
		case 1:
			put(len(b)-1, []byte("\n"))
		case 2:
			put(len(b)-2, []byte("\r\n"))
		case 3:
			put(len(b)-1, []byte("\r"))
		case 4:
			put(len(b)-10, []byte("\nendstream"))
		case 5:
			put(len(b)/2, []byte("\nendstream\nendobj\n"))
		}
		if rowLen > 1 {
			b = b[:len(b)/rowLen*rowLen]
		}
		return b
	})
}

var titles = []string{"", "Title", "Grüße aus Köln", "price 5 €", "日本語のタイトル", "a(b)c\\d", "line\nbreak", "þÿ looks like a BOM", "😀 astral"}

// metaTitles are the titles used inside XMP packets: XML 1.0 cannot hold the
// C0 control characters which init adds to titles.
var metaTitles = append([]string{}, titles[1:]...)

func init() {
	// every code point below U+0100, sixteen to a title (text strings choose
	// between PDFDocEncoding and Unicode forms by what the encoding can hold,
	// and 42 of these slots hold another character in PDFDocEncoding), plus
	// the characters PDFDocEncoding keeps in the slots 0x18-0x1F and 0x80-0x9E
	for base := 0; base < 0x100; base += 16 {
		rr := []rune{'T'}
		for i := 0; i < 16; i++ {
			if r := rune(base + i); r != 0 {
				rr = append(rr, r)
			}
		}
		titles = append(titles, string(rr))
	}
	titles = append(titles, "Total:\u00a0100\u00a0EUR", "\u02d8\u02c7\u02c6\u02d9\u02dd\u02db\u02da\u02dc",
		"\u2022\u2020\u2021\u2026\u2014\u2013\u0192\u2044\u2039\u203a\u2212\u2030\u201e\u201c\u201d\u2018\u2019\u201a\u2122\ufb01\ufb02\u0141\u0152\u0160\u0178\u017d\u0131\u0142\u0153\u0161\u017e\u20ac")
}

// Gen draws a program.
func Gen(o Opts) *rapid.Generator[Program] {
	if o.MaxActions == 0 {
		o.MaxActions = 12
	}
	if o.MaxData == 0 {
		o.MaxData = 70000
	}
	return rapid.Custom(func(t *rapid.T) Program {
		var p Program
		p.Version = rapid.IntRange(0, 8).Draw(t, "version")
		v := Versions[p.Version]
		p.HumanReadable = rapid.Bool().Draw(t, "human")
		p.Seekable = rapid.Bool().Draw(t, "seekable")
		if p.Seekable && !o.NoFileSink && rapid.IntRange(0, 11).Draw(t, "viacreate") == 0 {
			p.ViaCreate = true
		}
		if !o.NoEncryption && v >= pdf.V1_1 {
			switch rapid.IntRange(0, 5).Draw(t, "enc") {
			case 0, 1, 2:
			case 3:
				p.UserPW = rapid.SampledFrom([]string{"user", "secret", "x"}).Draw(t, "upw")
			case 4:
				p.OwnerPW = rapid.SampledFrom([]string{"owner", "god"}).Draw(t, "opw")
			case 5:
				p.UserPW = rapid.SampledFrom([]string{"user", "secret", "x"}).Draw(t, "upw")
				p.OwnerPW = rapid.SampledFrom([]string{"owner", "god"}).Draw(t, "opw")
			}
			if p.Encrypted() {
				p.Perm = uint32(rapid.SampledFrom([]pdf.Perm{0, pdf.PermAll, pdf.PermPrint, pdf.PermCopy | pdf.PermModify}).Draw(t, "perm"))
			}
		}
		if v >= pdf.V1_1 {
			minLen := 1
			if v >= pdf.V2_0 {
				minLen = 16
			}
			n := rapid.IntRange(0, 2).Draw(t, "nid")
			for i := 0; i < n; i++ {
				l := rapid.SampledFrom([]int{minLen, 16, 20}).Draw(t, "idlen")
				if l < minLen {
					l = minLen
				}
				seed := rapid.Uint64().Draw(t, "idseed")
				p.ID = append(p.ID, gen.Hex(vt.NewRand(seed).Bytes(l)))
			}
		}
		p.Title = rapid.SampledFrom(titles).Draw(t, "title")
		p.Author = rapid.SampledFrom(titles).Draw(t, "author")
		if rapid.IntRange(0, 3).Draw(t, "custom") == 0 {
			p.Custom = [][2]string{{"MyKey", rapid.SampledFrom(titles[1:]).Draw(t, "customval")}}
		}
		p.PageLayout = rapid.SampledFrom([]string{"", "SinglePage", "TwoColumnLeft"}).Draw(t, "layout")
		p.PageMode = rapid.SampledFrom([]string{"", "UseOutlines", "FullScreen"}).Draw(t, "mode")
		p.PagesLate = rapid.Bool().Draw(t, "pageslate")
		if v >= pdf.V1_4 && rapid.IntRange(0, 4).Draw(t, "catversion") == 0 {
			// the /Version entry of the catalog needs PDF 1.4; values below,
			// equal to and above the header version are all legitimate
			p.CatVersion = 1 + rapid.IntRange(0, 8).Draw(t, "catversionvalue")
		}
		if v >= pdf.V1_4 && rapid.IntRange(0, 3).Draw(t, "meta") == 0 {
			p.MetaTitle = rapid.SampledFrom(metaTitles).Draw(t, "metatitle")
			if !p.Encrypted() || v >= pdf.V1_6 {
				p.MetaPlain = rapid.Bool().Draw(t, "metaplain")
			}
		}

		objOpts := gen.ObjOpts{MaxDepth: 3, MaxStr: 3000, MaxName: 200, MaxWidth: 4}
		if o.SmallObjects {
			objOpts = gen.ObjOpts{MaxDepth: 2, MaxStr: 100, MaxName: 40, MaxWidth: 3}
		}
		drawObj := func(label string) gen.O {
			ob := gen.Obj(objOpts).Draw(t, label)
			if o.ForbidHeaders {
				ob = scrubHeaders(ob)
			}
			return ob
		}
		drawRef := func(a *Action) {
			switch rapid.IntRange(0, 5).Draw(t, "refkind") {
			case 0:
				a.RefKind = "pre"
				a.Pre = rapid.IntRange(0, 7).Draw(t, "pre")
			case 1:
				a.RefKind = "explicit"
				deltas := []uint32{1, 2, 7, 100, 3000}
				if o.AllowSparse {
					deltas = []uint32{1, 2, 7, 100, 3000, 1, 2, 7, 100, 3000, 70000}
				}
				a.Delta = rapid.SampledFrom(deltas).Draw(t, "delta")
				if o.MaxDelta > 0 && a.Delta > o.MaxDelta {
					a.Delta = o.MaxDelta
				}
				if a.Delta > 8000 && v >= pdf.V1_5 && !p.HumanReadable && !o.IgnoreSparseFinding && vt.FindingOpen(FindingSparseXRef) {
					// the file would get a cross-reference stream with more
					// entries than the reader's budget for its size allows
					a.Delta = 3000
					p.SparseCapped++
				}
				a.Gen = rapid.SampledFrom([]uint16{0, 0, 1, 7, 65535}).Draw(t, "gen")
			default:
				a.RefKind = "alloc"
			}
		}
		drawDict := func() *gen.O {
			d := gen.O{T: "dict"}
			if rapid.IntRange(0, 7).Draw(t, "xmpdict") == 0 {
				// an ordinary stream that calls itself a metadata stream, as
				// the XMP packet of a page or an image does: only the
				// document-level metadata stream named by the catalog is
				// exempt from encryption when /EncryptMetadata is false
				d.D = []gen.KV{{K: gen.Hex("Type"), V: gen.O{T: "name", S: gen.Hex("Metadata")}}, {K: gen.Hex("Subtype"), V: gen.O{T: "name", S: gen.Hex("XML")}}}
				return &d
			}
			n := rapid.IntRange(0, 3).Draw(t, "ndictkeys")
			for i := 0; i < n; i++ {
				key := rapid.SampledFrom([]string{"Type", "Subtype", "K", "My Key", "Params", "X#1"}).Draw(t, "dictkey")
				dup := false
				for _, kv := range d.D {
					if string(kv.K) == key {
						dup = true
					}
				}
				if dup {
					continue
				}
				val := gen.Obj(gen.ObjOpts{MaxDepth: 1, MaxStr: 80, MaxName: 30, MaxWidth: 3, NoNil: true}).Draw(t, "dictval")
				if val.T == "null" || val.T == "nilarr" || val.T == "nildict" {
					val = gen.O{T: "int", I: 1}
				}
				if o.ForbidHeaders {
					val = scrubHeaders(val)
				}
				d.D = append(d.D, gen.KV{K: gen.Hex(key), V: val})
			}
			return &d
		}
		var drawAction func(inStream bool) Action
		drawAction = func(inStream bool) Action {
			var a Action
			ops := []string{"alloc", "put", "put", "put", "putstream", "reput", "reputstream"}
			if !inStream {
				ops = append(ops, "stream", "stream", "stream")
				if !o.NoCompressed {
					ops = append(ops, "compressed", "compressed")
				}
			}
			a.Op = rapid.SampledFrom(ops).Draw(t, "op")
			if !o.NoBadPuts && !inStream && rapid.IntRange(0, 24).Draw(t, "bad") == 0 {
				a.Op = "putbad"
				a.Src = rapid.SampledFrom([]int{0, 0, 1, 2, 5}).Draw(t, "badsrc") // 0: object number 0
				if !o.NoCompressed && rapid.IntRange(0, 3).Draw(t, "badcompressed") == 0 {
					a.Src = -rapid.IntRange(1, 4).Draw(t, "badabove") // WriteCompressed, generation > 0
				}
				a.Gen = rapid.SampledFrom([]uint16{0, 0, 3, 65535}).Draw(t, "badgen")
				ob := drawObj("obj")
				a.Obj = &ob
				return a
			}
			if o.AllowBulk && !inStream && rapid.IntRange(0, 39).Draw(t, "bulk") == 0 {
				a.Op = "bulk"
				a.N = rapid.SampledFrom([]int{300, 1200, 1200, 4000}).Draw(t, "bulkn")
				a.Seed = rapid.Uint64().Draw(t, "bulkseed")
				return a
			}
			switch a.Op {
			case "put":
				drawRef(&a)
				ob := drawObj("obj")
				a.Obj = &ob
			case "reput", "reputstream":
				drawRef(&a)
				a.Src = rapid.IntRange(0, 7).Draw(t, "src")
			case "putstream":
				drawRef(&a)
				a.Dict = drawDict()
				a.Data = gen.Hex(Body(min(o.MaxData, 3000), 1).Draw(t, "data"))
				if o.ForbidHeaders {
					a.Data = scrubHeaderBytes(a.Data)
				}
			case "compressed":
				drawRef(&a)
				n := rapid.IntRange(1, 6).Draw(t, "nobjs")
				if rapid.IntRange(0, 9).Draw(t, "many") == 0 {
					n = rapid.IntRange(7, 20).Draw(t, "nobjs2")
				}
				for i := 0; i < n; i++ {
					ob := drawObj("cobj")
					if ob.T == "ref" {
						ob = gen.O{T: "arr", A: []gen.O{ob}}
					}
					a.Objs = append(a.Objs, ob)
				}
			case "stream":
				drawRef(&a)
				a.Dict = drawDict()
				nf := rapid.SampledFrom([]int{0, 0, 1, 1, 2, 3}).Draw(t, "nfilters")
				rl := 1
				for i := 0; i < nf; i++ {
					tags := []string{"a85", "ahx", "rl", "fl", "lzw", "lzw1", "cmp"}
					if i == nf-1 {
						tags = append(tags, "fl12", "fl2")
					}
					tag := rapid.SampledFrom(tags).Draw(t, "filter")
					if !filterOK(tag, v) {
						tag = "lzw"
					}
					a.Filters = append(a.Filters, tag)
					if i == nf-1 {
						rl = rowLen(tag)
					}
				}
				a.Data = gen.Hex(Body(o.MaxData, rl).Draw(t, "data"))
				if o.ForbidHeaders {
					a.Data = scrubHeaderBytes(a.Data)
				}
				switch rapid.IntRange(0, 3).Draw(t, "chunking") {
				case 0:
				case 1:
					a.Chunks = []int{rapid.IntRange(1, 1500).Draw(t, "chunk")}
				case 2:
					a.Chunks = rapid.SliceOfN(rapid.IntRange(1, 2000), 1, 5).Draw(t, "chunks")
				case 3:
					a.Chunks = []int{1023, 1, 1}
				}
				if len(a.Data) > 4000 && len(a.Chunks) > 0 {
					// avoid hundreds of thousands of one-byte writes
					for i := range a.Chunks {
						if a.Chunks[i] < 64 {
							a.Chunks[i] += 64
						}
					}
				}
				if nf == 0 && !p.Encrypted() {
					a.GiveLen = rapid.IntRange(0, 4).Draw(t, "givelen") == 0
				}
				nd := rapid.SampledFrom([]int{0, 0, 1, 2, 3}).Draw(t, "nduring")
				for i := 0; i < nd; i++ {
					a.During = append(a.During, drawAction(true))
				}
			}
			return a
		}
		n := rapid.IntRange(1, o.MaxActions).Draw(t, "nactions")
		for i := 0; i < n; i++ {
			p.Actions = append(p.Actions, drawAction(false))
		}
		return p
	})
}

// scrubHeaders removes line-initial object headers from all strings of a tree
// (domain restriction of C20).
func scrubHeaders(o gen.O) gen.O {
	switch o.T {
	case "str":
		o.S = gen.Hex(scrubHeaderBytes(o.S))
	case "arr":
		a := make([]gen.O, len(o.A))
		for i := range o.A {
			a[i] = scrubHeaders(o.A[i])
		}
		o.A = a
	case "dict":
		d := make([]gen.KV, len(o.D))
		for i := range o.D {
			d[i] = gen.KV{K: o.D[i].K, V: scrubHeaders(o.D[i].V)}
		}
		o.D = d
	}
	return o
}

// scrubHeaderBytes makes sure that no line of b starts with digits.  (A line
// starting with a digit is a necessary condition for a line-initial "N G obj".)
func scrubHeaderBytes(b []byte) []byte {
	out := append([]byte{}, b...)
	for i := range out {
		if out[i] >= '0' && out[i] <= '9' && (i == 0 || out[i-1] == '\n' || out[i-1] == '\r') {
			out[i] = 'd'
		}
	}
	return out
}

// Classes returns class labels describing the program (for the evidence).
func (p *Program) Classes(r *Result) []string {
	cls := []string{"v" + Versions[p.Version].String(), "cipher:" + p.Cipher()}
	if p.ViaCreate {
		cls = append(cls, "sink:named-file-via-Create")
	}
	if p.Seekable {
		cls = append(cls, "sink:seekable")
	} else {
		cls = append(cls, "sink:stream")
	}
	if p.HumanReadable {
		cls = append(cls, "human-readable")
	}
	if p.CatVersion > 0 {
		cls = append(cls, "has:catalog-version")
	}
	if p.MetaTitle != "" {
		cls = append(cls, "has:xmp-metadata")
		if p.MetaPlain && p.Encrypted() {
			cls = append(cls, "has:plaintext-metadata-encrypted")
		}
	}
	has := map[string]bool{}
	var walk func(as []Action, in bool)
	walk = func(as []Action, in bool) {
		for i := range as {
			a := &as[i]
			has[a.Op] = true
			if in {
				has["deferred"] = true
				if a.Op == "putstream" {
					has["deferred-stream"] = true
				}
			}
			if a.RefKind == "explicit" && a.Op == "compressed" {
				has["explicit-ref-compressed"] = true
			}
			if a.RefKind == "explicit" {
				has["explicit-ref"] = true
				if a.Gen > 0 {
					has["gen>0"] = true
				}
			}
			if a.Op == "stream" {
				if len(a.Filters) >= 2 {
					has["chain>=2"] = true
				}
				if a.GiveLen {
					has["given-length"] = true
				}
				switch {
				case len(a.Data) < 1024 && len(a.Filters) == 0:
					has["length:buffered"] = true
				case p.Seekable:
					has["length:seek-back-or-buffered"] = true
				default:
					has["length:indirect-or-buffered"] = true
				}
				if bytes.Contains(a.Data, []byte("endstream")) {
					has["body-has-endstream"] = true
				}
			}
			walk(a.During, true)
		}
	}
	walk(p.Actions, false)
	keys := make([]string, 0, len(has))
	for k := range has {
		keys = append(keys, "has:"+k)
	}
	sort.Strings(keys)
	return append(cls, keys...)
}

// NonTrivial implements the rule of C02: the program contains a stream and
// (an object-stream batch, or encryption, or a non-seekable sink, or a Put
// during an open stream).
func (p *Program) NonTrivial() bool {
	stream, comp, deferred := false, false, false
	for i := range p.Actions {
		a := &p.Actions[i]
		switch a.Op {
		case "stream", "putstream":
			stream = true
			if len(a.During) > 0 {
				deferred = true
			}
		case "compressed":
			comp = true
		}
	}
	return stream && (comp || p.Encrypted() || !p.Seekable || deferred)
}

// ScrubNames removes NUL bytes from every name and dictionary key of the
// program.  ISO 32000 7.3.5 excludes character code 0 from names, so a name
// containing NUL cannot be written in a conforming way (C03's domain).
func (p *Program) ScrubNames() {
	var scrubO func(o gen.O) gen.O
	fix := func(b gen.Hex) gen.Hex {
		if bytes.IndexByte(b, 0) < 0 {
			return b
		}
		out := append(gen.Hex{}, b...)
		for i := range out {
			if out[i] == 0 {
				out[i] = 'z'
			}
		}
		return out
	}
	scrubO = func(o gen.O) gen.O {
		switch o.T {
		case "name":
			o.S = fix(o.S)
		case "arr":
			a := make([]gen.O, len(o.A))
			for i := range o.A {
				a[i] = scrubO(o.A[i])
			}
			o.A = a
		case "dict":
			var d []gen.KV
			seen := map[string]bool{}
			for _, kv := range o.D {
				k := fix(kv.K)
				if seen[string(k)] {
					continue
				}
				seen[string(k)] = true
				d = append(d, gen.KV{K: k, V: scrubO(kv.V)})
			}
			o.D = d
		}
		return o
	}
	var walk func(as []Action)
	walk = func(as []Action) {
		for i := range as {
			a := &as[i]
			if a.Obj != nil {
				o := scrubO(*a.Obj)
				a.Obj = &o
			}
			if a.Dict != nil {
				o := scrubO(*a.Dict)
				a.Dict = &o
			}
			for j := range a.Objs {
				a.Objs[j] = scrubO(a.Objs[j])
			}
			walk(a.During)
		}
	}
	walk(p.Actions)
}

// CapSparse cuts explicit object-number distances down to 3000 when the
// program will be written with a cross-reference stream (see
// FindingSparseXRef).  It returns the number of references changed.
func (p *Program) CapSparse() int {
	if Versions[p.Version] < pdf.V1_5 || p.HumanReadable {
		return 0
	}
	n := 0
	var walk func(as []Action)
	walk = func(as []Action) {
		for i := range as {
			if as[i].Delta > 8000 {
				as[i].Delta = 3000
				n++
			}
			walk(as[i].During)
		}
	}
	walk(p.Actions)
	p.SparseCapped += n
	return n
}
