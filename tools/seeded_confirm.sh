#!/bin/bash
# Final confirmation as the brief describes it: apply each seeded patch to /repo itself, run the quick check,
# restore the tree.  Only run this when nothing else builds from /repo.
cd /verif
for d in seeded/*/; do
  k=$(basename $d); id=${k%%-*}
  chk=$(python3 -c "import json;print(json.load(open('$d/meta.json'))['check_run']['check'])")
  git -C /repo apply $d/patch.diff || { echo "$k APPLY-FAILED"; continue; }
  out=$(./check $chk --no-evidence 2>&1); e=$?
  git -C /repo checkout -- . ; git -C /repo clean -fdq
  rm -rf replays/$chk/found
  echo "$k check=$chk exit=$e $(echo "$out" | grep -m1 '^VIOLATION' | cut -c1-120)"
done
