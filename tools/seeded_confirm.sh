#!/bin/bash
# Final confirmation as the brief describes it: apply a seeded patch to /repo itself, run the quick check,
# restore the tree.  Only run this when nothing else builds from /repo.
# usage: tools/seeded_confirm.sh [ID-slot ...]   (default: every seeded change)
cd /verif
export GOFLAGS=-mod=mod GOPROXY=off
list="$@"; [ -z "$list" ] && list=$(ls seeded | grep -E '^C[0-9]+-[A-Z]$')
for k in $list; do
  d=seeded/$k
  chk=$(python3 -c "import json;print(json.load(open('$d/meta.json'))['check_run']['check'])")
  det=$(python3 -c "import json;print(json.load(open('$d/meta.json'))['detected'])")
  [ "$det" = "superseded" ] && { echo "$k superseded (patch no longer applies after a repair of /repo)"; continue; }
  git -C /repo apply /verif/$d/patch.diff || { echo "$k APPLY-FAILED"; git -C /repo checkout -- . ; continue; }
  out=$(./check $chk --no-evidence 2>&1); e=$?
  git -C /repo checkout -- . ; git -C /repo clean -fdq
  rm -rf replays/$chk/found
  echo "$k check=$chk exit=$e $(echo "$out" | grep -m1 '^VIOLATION' | cut -c1-120)"
done
git -C /repo status --short | head -3
