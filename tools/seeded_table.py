#!/usr/bin/env python3
"""Write seeded/README.md from seeded/*/meta.json."""
import json, glob, os
ROOT = os.path.dirname(os.path.dirname(os.path.abspath(__file__)))
rows = []
for f in sorted(glob.glob(os.path.join(ROOT, "seeded", "*", "meta.json"))):
    d = json.load(open(f)); k = f.split("/")[-2]
    c = d.get("confirmed_by_lead", {})
    ok = all(c.get(x) for x in ("compiles", "demo_passes_without_patch", "demo_fails_with_patch", "pinned_suite_passes_with_patch"))
    rows.append((k, d.get("check_run", {}).get("check"), d.get("detected_at_first_evaluation"), d.get("detected"), ok,
                 (d.get("title") or "").replace("|", "/"), (d.get("needs_to_manifest") or "").replace("|", "/").replace("\n", " ")))
n = len(rows)
first_q = sum(1 for r in rows if r[2] == "quick"); first_t = sum(1 for r in rows if r[2] == "thorough"); first_n = sum(1 for r in rows if r[2] == "no")
now_q = sum(1 for r in rows if r[3] == "quick"); now_t = sum(1 for r in rows if r[3] == "thorough"); now_n = sum(1 for r in rows if r[3] == "no"); now_s = sum(1 for r in rows if r[3] == "superseded")
out = ["# Independently seeded changes", "",
       "Each directory holds one change to seehuhn/go-pdf produced by a fresh sub-agent that saw only the text of one",
       "property and a scratch worktree (nothing from /verif): `patch.diff`, the agent's demonstration (`*_test.go`),",
       "`agent-meta.json` (the agent's own claims) and `meta.json` (what the lead confirmed and what the checks did).",
       "Every change was confirmed with `tools/seedeval.sh`: it compiles, the pinned suite still passes with it, and the",
       "demonstration fails with the change and passes without it.  The checks were run against the change through",
       "`tools/mutant.py` (the patched files reach the Go tool chain through `go build -overlay`, /repo is untouched);",
       "the final confirmation loop (`tools/seeded_confirm.sh`) applies each patch to /repo with `git apply`, runs the quick",
       "check and restores the tree.", "",
       "`first` is the outcome when the change was first evaluated; `now` is the outcome after the checks were",
       "strengthened in response to the misses (the strengthening is described in DESIGN.md section 8.5).", "",
       "Totals: %d changes; first evaluation: %d caught in the quick tier, %d only in the thorough tier, %d missed; now: %d quick, %d thorough only, %d missed, %d superseded by a repair of /repo." % (n, first_q, first_t, first_n, now_q, now_t, now_n, now_s),
       "", "| change | check | first | now | confirmed | what it is | what it needs to manifest |", "|---|---|---|---|---|---|---|"]
for r in rows:
    out.append("| %s | %s | %s | %s | %s | %s | %s |" % (r[0], r[1], r[2], r[3], "yes" if r[4] else "NO", r[5][:140], r[6][:220]))
open(os.path.join(ROOT, "seeded", "README.md"), "w").write("\n".join(out) + "\n")
print("\n".join(out[13:16]))
