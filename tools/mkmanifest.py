#!/usr/bin/env python3
"""Regenerate MANIFEST.json from checks/*/jobs.json (keys manifest_*) and validate it."""
import json, os, subprocess, sys
ROOT = os.path.dirname(os.path.dirname(os.path.abspath(__file__)))
props = [json.loads(l)["id"] for l in open(os.path.join(ROOT, "properties.jsonl")) if l.strip()]
checks, na = [], []
na_reasons = {}
try:
    na_reasons = json.load(open(os.path.join(ROOT, "tools", "not_applicable.json")))
except OSError:
    pass
claimed = set(open(os.path.join(ROOT, "tools", "claimed.txt")).read().split())
for pid in props:
    p = os.path.join(ROOT, "checks", pid.lower(), "jobs.json")
    if not os.path.exists(p) or pid not in claimed:
        na.append({"property_id": pid, "reason": na_reasons.get(pid, "check not built yet in this session; planned in DESIGN.md section 3")})
        continue
    cfg = json.load(open(p))
    m = cfg.get("manifest", {})
    checks.append({
        "property_id": pid,
        "quick_cmd": "./check %s --tier quick" % pid,
        "thorough_cmd": "./check %s --tier thorough" % pid,
        "evidence_file": "/verif/evidence/%s.json" % pid,
        "replay_cmd_template": "./check %s --replay {path}" % pid,
        "engine": "rapid+enumerators",
        "level_claimed": {"category": cfg.get("level", "exploration"), "text": m.get("level_text", ""), "design_ref": "DESIGN.md section 3, " + pid},
        "level_note": m.get("level_note", ""),
        "technique": m.get("technique", "property-based testing (pgregory.net/rapid) with explicit oracle"),
    })
hooks_commits = subprocess.run(["git", "-C", "/repo", "log", "--format=%H %s"], capture_output=True, text=True).stdout.splitlines()
hook_shas = [l.split()[0] for l in hooks_commits if " verif hook" in l]
man = {
    "version": 1,
    "setup_cmd": "./check --build-all",
    "hooks": {
        "guard": "verif (Go build tag)",
        "enable": "go test -c -tags verif (done by ./check); hook files are //go:build verif, with //go:build !verif no-op counterparts where calls are inserted",
        "baseline_off_cmd": "cd /repo && GOFLAGS=-mod=mod GOPROXY=off go test -json -vet=off -count=1 -timeout 25m ./...",
        "source_commits": hook_shas,
        "add_only": True,
    },
    "engines": [{"name": "rapid+enumerators", "path": "/verif/check", "serves_properties": [c["property_id"] for c in checks],
                 "kind_free_text": "Go test binaries (one package per property under checks/) driven by pgregory.net/rapid v1.3.0, exhaustive enumerators and native go fuzzing; python3 driver merges per-process statistics into evidence"}],
    "checks": checks,
    "not_applicable": na,
    "notes": "See DESIGN.md. exit 0 = held (KNOWN-FINDING lines possible), 1 = VIOLATION, 2 = undecided (build failure/timeout).",
}
json.dump(man, open(os.path.join(ROOT, "MANIFEST.json"), "w"), indent=1)
try:
    import jsonschema
    jsonschema.validate(man, json.load(open("/root/.vp/MANIFEST.schema.json")))
    print("manifest valid:", len(checks), "checks,", len(na), "not claimed")
except ImportError:
    print("jsonschema not available; run with python3-vt")
