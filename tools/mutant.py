#!/usr/bin/env python3
"""Run a check against a mutant of /repo without touching /repo.

usage: [PENDING=fix1.patch,fix2.patch] tools/mutant.py <ID> <patch>[,<patch>...] [check args...]

Patches named in $PENDING (pending repairs of /repo) are applied first.

The patch (unified diff, -p1 relative to /repo) is applied to copies of the
files it names under a scratch directory; the copies are handed to the Go
tool chain through `go build -overlay`.  Exit status is that of ./check.
"""
import json, os, re, shutil, subprocess, sys, tempfile

ROOT = os.path.dirname(os.path.dirname(os.path.abspath(__file__)))
REPO = "/repo"

def main():
    pid = sys.argv[1]
    patches = [os.path.abspath(x) for x in sys.argv[2].split(",") if x]
    if os.environ.get("PENDING"):
        patches = [os.path.abspath(x) for x in os.environ["PENDING"].split(",") if x] + patches
    extra = sys.argv[3:]
    files = []
    for patch in patches:
        for line in open(patch):
            m = re.match(r"^\+\+\+ (?:b/)?(\S+)", line)
            if m and m.group(1) != "/dev/null" and m.group(1) not in files:
                files.append(m.group(1))
    tmp = tempfile.mkdtemp(prefix="verif-mut-")
    try:
        for f in files:
            dst = os.path.join(tmp, f)
            os.makedirs(os.path.dirname(dst), exist_ok=True)
            if os.path.exists(os.path.join(REPO, f)):
                shutil.copy(os.path.join(REPO, f), dst)
        for patch in patches:
            p = subprocess.run(["patch", "-p1", "-s", "-i", patch], cwd=tmp)
            if p.returncode != 0:
                print("MUTANT-PATCH-FAILED", patch)
                return 3
        overlay = {"Replace": {os.path.join(REPO, f): os.path.join(tmp, f) for f in files}}
        ov = os.path.join(tmp, "overlay.json")
        json.dump(overlay, open(ov, "w"))
        env = dict(os.environ)
        env["VERIF_OVERLAY"] = ov
        p = subprocess.run([os.path.join(ROOT, "check"), pid, "--no-evidence"] + extra, env=env, cwd=ROOT)
        return p.returncode
    finally:
        shutil.rmtree(tmp, ignore_errors=True)

if __name__ == "__main__":
    sys.exit(main())
