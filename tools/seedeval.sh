#!/bin/bash
# usage: tools/seedeval.sh <ID> <slot>   (reads /tmp/seed/out-<ID>/<slot>, uses worktree /tmp/seed/wt-<ID>)
# 1. confirms the seeded change: compiles, demo fails with it and passes without it, pinned suite passes with it
# 2. runs ./check <ID> (quick, then thorough if quick misses) against it through the overlay
# 3. stores everything under /verif/seeded/<ID>-<slot>/
set -u
export GOFLAGS=-mod=mod GOPROXY=off
id=$1; slot=$2; chk=${3:-$id}
src=${4:-/tmp/seed/out-$id}/$slot; wt=/tmp/seed/wt-$id; dst=/verif/seeded/$id-$slot
[ -f $src/patch.diff ] || { echo "no patch in $src"; exit 3; }
mkdir -p $dst; cp $src/patch.diff $dst/; cp $src/meta.json $dst/agent-meta.json 2>/dev/null
demo=$(ls $src/*_test.go $src/*.go 2>/dev/null | head -1); cp $demo $dst/ 2>/dev/null
cd $wt && git checkout -q -- . && git clean -fdq
place=$(head -5 $demo | grep -o 'place in: *[^ ]*' | sed 's/place in: *//' | head -1); place=${place:-.}
[ "$place" = "root" ] && place=.
[ "$place" = "(module root)" ] && place=.
run_demo() { (cd $wt/$place && go test -vet=off -count=1 -run . ./ 2>&1 | tail -30); }
cp $demo $wt/$place/zz_seed_demo_test.go
without=$(run_demo); wo_rc=$(echo "$without" | grep -c "^ok")
git apply $dst/patch.diff || { echo "PATCH DOES NOT APPLY"; exit 3; }
build=$(go build ./... 2>&1 | grep -v "movie.mp4\|viewer-tests" | head -5)
with=$(run_demo); wi_rc=$(echo "$with" | grep -c "^FAIL\|--- FAIL")
rm -f $wt/$place/zz_seed_demo_test.go
suite=$(go test -vet=off -count=1 ./... 2>&1 | grep -v "^ok\|no test files\|viewer-tests/m\|movie.mp4\|^FAIL$" | head -10)
git checkout -q -- . && git clean -fdq
echo "demo_without_patch_ok=$wo_rc demo_with_patch_fails=$wi_rc build_errors=[$build] suite_failures=[$suite]"
cd /verif
q=$(python3 tools/mutant.py $chk $dst/patch.diff 2>&1); qe=$?
qv=$(echo "$q" | grep -m1 -A1 "^VIOLATION" | tr '\n' ' ' | cut -c1-400)
rm -rf replays/$chk/found
te=-; tv=""
if [ $qe -ne 1 ]; then
  t=$(python3 tools/mutant.py $chk $dst/patch.diff --tier thorough 2>&1); te=$?
  tv=$(echo "$t" | grep -m1 -A1 "^VIOLATION" | tr '\n' ' ' | cut -c1-400)
  rm -rf replays/$chk/found
fi
echo "check=$chk quick_exit=$qe thorough_exit=$te"
python3 - "$id" "$slot" "$chk" "$wo_rc" "$wi_rc" "$build" "$suite" "$qe" "$te" "$qv" "$tv" <<'PY'
import json,sys,os
id,slot,chk,wo,wi,build,suite,qe,te,qv,tv=sys.argv[1:]
dst='/verif/seeded/%s-%s'%(id,slot)
am={}
try: am=json.load(open(dst+'/agent-meta.json'))
except Exception: pass
meta={"property":id,"slot":slot,"title":am.get("title"),"what_breaks":am.get("what_breaks"),"needs_to_manifest":am.get("needs_to_manifest"),
 "files_changed":am.get("files_changed"),
 "confirmed_by_lead":{"compiles":build=="","demo_passes_without_patch":int(wo)>0,"demo_fails_with_patch":int(wi)>0,"pinned_suite_passes_with_patch":suite=="",
   "how":"tools/seedeval.sh: scratch worktree of /repo HEAD; go build ./...; demo test with/without patch; go test ./... with patch"},
 "check_run":{"check":chk,"via":"tools/mutant.py (go build -overlay of the patched files; /repo untouched)","quick_exit":int(qe),"quick_violation":qv,
   "thorough_exit":(None if te=='-' else int(te)),"thorough_violation":tv},
 "detected": ("quick" if qe=='1' else ("thorough" if te=='1' else "no"))}
try:
    meta["detected_at_first_evaluation"]=json.load(open('/verif/seeded/first_evaluation.json')).get('%s-%s'%(id,slot))
except Exception: pass
json.dump(meta,open(dst+'/meta.json','w'),indent=1)
print("detected:",meta["detected"])
PY
