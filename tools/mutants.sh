#!/bin/sh
# usage: tools/mutants.sh <ID> [check args]   -- run every mutant of the property; each must give exit 1
id=$1; shift
cd "$(dirname "$0")/.."
rc=0
for p in mutants/$id/*.patch; do
  [ -e "$p" ] || continue
  out=$(python3 tools/mutant.py "$id" "$p" "$@" 2>&1); e=$?
  rm -rf replays/$id/found
  if [ $e -eq 1 ] && echo "$out" | grep -q "^VIOLATION property="; then echo "KILLED   $p"; else echo "SURVIVED $p (exit $e)"; echo "$out" | tail -5; rc=1; fi
done
exit $rc
