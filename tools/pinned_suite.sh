#!/bin/bash
# Runs the repository's own pinned test suite (guard off: no build tag) on /repo's working tree and compares
# the passing tests with the stable_pass list of /root/.vp/BASELINE.json.  Output goes to a scratch file that is removed.
export GOPROXY=off
out=$(mktemp /var/tmp/suite.XXXXXX.json)
(cd /repo && go test -mod=mod -json -vet=off -count=1 -timeout 25m ./... > $out 2>/dev/null)
python3 - "$out" <<'PY'
import json,sys
base=json.load(open('/root/.vp/BASELINE.json')); stable=set(base['stable_pass'])
passed=set(); failed=set()
for l in open(sys.argv[1]):
    try: e=json.loads(l)
    except Exception: continue
    if e.get('Test') and e.get('Action') in ('pass','fail'):
        (passed if e['Action']=='pass' else failed).add(e['Package']+'::'+e['Test'])
print("pinned tests: %d, passing now: %d, missing: %s, failing: %s" % (len(stable), len(stable&passed), sorted(stable-passed)[:10], sorted(failed)[:10]))
sys.exit(0 if stable<=passed else 1)
PY
rc=$?; rm -f $out; git -C /repo status --short | head -3; exit $rc
