#!/bin/bash
# usage: tools/seeded_restamp.sh <ID>-<slot> [CHECK]
# Re-runs the check (quick, then thorough if quick misses) against an already confirmed seeded change
# through the overlay and updates check_run/detected in its meta.json.
set -u
export GOFLAGS=-mod=mod GOPROXY=off
cd /verif
k=$1; dst=seeded/$k
chk=${2:-$(python3 -c "import json;print(json.load(open('$dst/meta.json'))['check_run']['check'])")}
q=$(python3 tools/mutant.py $chk $dst/patch.diff 2>&1); qe=$?
qv=$(echo "$q" | grep -m1 -A1 "^VIOLATION" | tr '\n' ' ' | cut -c1-400)
rm -rf replays/$chk/found
te=-; tv=""
if [ $qe -ne 1 ]; then
  t=$(python3 tools/mutant.py $chk $dst/patch.diff --tier thorough 2>&1); te=$?
  tv=$(echo "$t" | grep -m1 -A1 "^VIOLATION" | tr '\n' ' ' | cut -c1-400)
  rm -rf replays/$chk/found
fi
python3 - "$k" "$chk" "$qe" "$te" "$qv" "$tv" <<'PY'
import json,sys
k,chk,qe,te,qv,tv=sys.argv[1:]
f='/verif/seeded/%s/meta.json'%k; m=json.load(open(f))
m["check_run"].update({"check":chk,"quick_exit":int(qe),"quick_violation":qv,"thorough_exit":(None if te=='-' else int(te)),"thorough_violation":tv})
m["detected"]="quick" if qe=='1' else ("thorough" if te=='1' else "no")
json.dump(m,open(f,'w'),indent=1)
print(k,"check=%s quick_exit=%s thorough_exit=%s detected=%s"%(chk,qe,te,m["detected"]))
PY
